"""M -- an abstract machine over clang's JSON AST (statements and the expression tuples of astlib.to_expr).

The machine *abstractly executes* library code that is bookkeeping rather than arithmetic (container surgery, index
arithmetic, loops over patterns, optional outputs, early returns) on abstract states chosen by the client rule:

  * numbers are exact rationals or rational functions over named symbols (lib/poly.RF); opaque data (matrix entries, tangent
    vectors, group elements) are symbols that the code can only move around or combine by ring operations;
  * containers (std::vector / std::array / ranges), iterators, optionals, lambdas, structs, sparse matrices are modelled
    by small python classes; library calls whose body is in the AST index are executed by inlining; anything the machine
    has no model for raises Unab (the client reports analysis-broken, exit 2) -- never a violation;
  * a comparison between symbolic numbers that is not constant raises NeedDecision; `run_paths` re-executes the client
    scenario under both outcomes (decisions are shared between equal abstract values, as in engines P and R).

No library code is compiled or run; sizes (number of segments, degrees of freedom, offsets) are fixed per scenario by the
client, so a rule built on M is a bounded (small-scope) abstract execution unless the client says otherwise.

The point of M over pattern rules: the verdict depends on what the statements *do* to the abstract state, not on how they
are spelled, so renaming, hoisting, loop restructuring, early returns, extracted helpers and equivalent index formulas are
invisible, while a changed effect is reported with the state cell that differs."""
import copy
import re
from fractions import Fraction

import astlib as A
import poly


def TE(n):
    return A.to_expr(n, rich=True)


def short_name(full):
    """last component of a qualified name with every (balanced) template-argument list removed"""
    out, depth = "", 0
    for ch in full or "":
        if ch == "<":
            depth += 1
        elif ch == ">":
            depth = max(0, depth - 1)
        elif depth == 0:
            out += ch
    last = out.split("::")[-1]
    if last.startswith("template") and len(last) > 8:
        last = last[8:]
    return last


_DECL_CACHE = {}


def load_decls(short):
    """function declarations with a body named `short` under /repo's include tree (template patterns), fetched with one filtered AST dump"""
    import fe
    if short not in _DECL_CACHE:
        out = []
        try:
            for x in A.index(fe.ast_dump(short)):
                if x.pattern and x.kind in A.FUNCS and A.body(x.node) is not None and x.file and x.file.startswith(fe.INCLUDE) \
                        and x.qname.split("::")[-1] == short:
                    if not any(y.file == x.file and y.line == x.line for y in out):
                        out.append(x)
        except fe.Broken:
            out = []
        _DECL_CACHE[short] = out
    return _DECL_CACHE[short]


class Unab(Exception):
    """outside the machine's model: analysis-broken for the caller, never a violation"""


class NeedDecision(Exception):
    def __init__(self, key, show):
        self.key = key
        self.show = show


class _Return(Exception):
    def __init__(self, value):
        self.value = value


class _Break(Exception):
    pass


class _Continue(Exception):
    pass


class AbstractViolation(Exception):
    """raised by object models when the interpreted code does something definitely wrong on the abstract state
    (index out of range, insertion of an existing sparse entry, use of an unset optional, ...)"""


# ---------------------------------------------------------------------------------------------------------------
# values
# ---------------------------------------------------------------------------------------------------------------

def sym(name):
    return poly.RF(poly.p_var(name))


def is_num(v):
    return isinstance(v, (Fraction, int, bool, poly.RF, float))


def to_rf(v):
    if isinstance(v, poly.RF):
        return v
    if isinstance(v, bool):
        return poly.RF.const(Fraction(int(v)))
    if isinstance(v, (int, Fraction)):
        return poly.RF.const(Fraction(v))
    raise Unab("not a number: %r" % (v,))


_CONS = poly.Constraints()


def simp(v):
    """normal form of a number: Fraction when constant; python floats carry the IEEE specials inf / nan of a scenario"""
    if isinstance(v, float):
        return v
    if isinstance(v, poly.RF):
        n = v.normal(_CONS)
        if poly.p_is_const(n.n) and poly.p_is_const(n.d) and n.d:
            return n.n.get((), Fraction(0)) / n.d[()]
        return n
    if isinstance(v, bool):
        return v
    if isinstance(v, int):
        return Fraction(v)
    return v


def num_equal(a, b):
    a, b = simp(a), simp(b)
    if isinstance(a, poly.RF) or isinstance(b, poly.RF):
        return poly.rf_equal(to_rf(a), to_rf(b), _CONS)
    return Fraction(a) == Fraction(b)


def show_val(v):
    v = simp(v) if is_num(v) else v
    if isinstance(v, poly.RF):
        s = poly.p_show(v.n, 6)
        return s if poly.p_is_const(v.d) and v.d.get((), 0) == 1 else "(%s) / (%s)" % (s, poly.p_show(v.d, 4))
    if isinstance(v, Fraction):
        return str(v)
    if hasattr(v, "show"):
        return v.show()
    return repr(v)


class Cell:
    """a variable / element / field: something with get and set"""
    __slots__ = ("v", "is_int")

    def __init__(self, v=None, is_int=False):
        self.v = v
        self.is_int = is_int

    def get(self):
        return self.v

    def set(self, v):
        self.v = v


class ItemRef:
    """reference to container[key] (python list / dict)"""
    __slots__ = ("c", "k", "what", "is_int")

    def __init__(self, c, k, what="element"):
        self.c, self.k, self.what = c, k, what
        self.is_int = False

    def get(self):
        try:
            return self.c[self.k]
        except (IndexError, KeyError):
            raise AbstractViolation("read of %s %r outside the container" % (self.what, self.k))

    def set(self, v):
        if isinstance(self.c, list) and not (0 <= self.k < len(self.c)):
            raise AbstractViolation("write of %s %r outside the container (size %d)" % (self.what, self.k, len(self.c)))
        self.c[self.k] = v


class FnRef:
    __slots__ = ("g", "s", "is_int")

    def __init__(self, g, s):
        self.g, self.s = g, s
        self.is_int = False

    def get(self):
        return self.g()

    def set(self, v):
        self.s(v)


def is_ref(x):
    return isinstance(x, (Cell, ItemRef, FnRef))


UNSET = type("Unset", (), {"__repr__": lambda self: "<unset>", "__deepcopy__": lambda self, memo: self, "__copy__": lambda self: self})()


class Vec:
    """std::vector / std::array / a materialised range"""

    def __init__(self, items=None, name="vector", default=None):
        self.items = list(items or [])
        self.name = name
        self.default = default        # value-initialised element (callable) for resize(n) / vector(n)

    def show(self):
        return "[" + ", ".join(show_val(x) for x in self.items) + "]"

    def __deepcopy__(self, memo):
        return Vec([copy.deepcopy(x, memo) for x in self.items], self.name, self.default)

    def idx(self, i):
        i = simp(i)
        if not isinstance(i, Fraction) or i.denominator != 1:
            raise Unab("index %s of %s is not a concrete integer" % (show_val(i), self.name))
        return int(i)

    def at(self, i):
        i = self.idx(i)
        if not (0 <= i < len(self.items)):
            raise AbstractViolation("index %d outside %s of size %d" % (i, self.name, len(self.items)))
        return ItemRef(self.items, i, "%s[%d]" % (self.name, i))

    # methods: m_<name>(mach, args (values), targs)
    def m_size(self, M, a, t):
        return Fraction(len(self.items))

    m_ssize = m_size

    def m_empty(self, M, a, t):
        return not self.items

    def m_front(self, M, a, t):
        return self.at(0)

    def m_back(self, M, a, t):
        return self.at(len(self.items) - 1)

    def m_at(self, M, a, t):
        return self.at(a[0])

    def m_push_back(self, M, a, t):
        self.items.append(M.copyval(a[0]))

    def m_emplace_back(self, M, a, t):
        if len(a) != 1:
            raise Unab("emplace_back with %d arguments" % len(a))
        self.items.append(M.copyval(a[0]))
        return self.at(len(self.items) - 1)

    def m_pop_back(self, M, a, t):
        if not self.items:
            raise AbstractViolation("pop_back on an empty %s" % self.name)
        self.items.pop()

    def m_clear(self, M, a, t):
        self.items[:] = []

    def m_reserve(self, M, a, t):
        return None

    def m_shrink_to_fit(self, M, a, t):
        return None

    def m_resize(self, M, a, t):
        n = self.idx(a[0])
        if n < len(self.items):
            del self.items[n:]
        else:
            for _ in range(n - len(self.items)):
                self.items.append(M.copyval(a[1]) if len(a) > 1 else (self.default() if self.default else UNSET))

    def m_assign(self, M, a, t):
        if len(a) == 2 and isinstance(a[0], It) and isinstance(a[1], It):
            self.items[:] = [M.copyval(x) for x in a[0].v.items[a[0].i:a[1].i]]
        elif len(a) == 2:
            self.items[:] = [M.copyval(a[1]) for _ in range(self.idx(a[0]))]
        else:
            raise Unab("vector::assign form")

    def m_begin(self, M, a, t):
        return It(self, 0)

    m_cbegin = m_begin

    def m_end(self, M, a, t):
        return It(self, len(self.items))

    m_cend = m_end

    def m_insert(self, M, a, t):
        if len(a) == 3 and all(isinstance(x, It) for x in a):
            if a[0].v is not self:
                raise Unab("insert position of another container")
            new = [M.copyval(x) for x in a[1].v.items[a[1].i:a[2].i]]
            self.items[a[0].i:a[0].i] = new
            return It(self, a[0].i)
        if len(a) == 2 and isinstance(a[0], It):
            self.items.insert(a[0].i, M.copyval(a[1]))
            return It(self, a[0].i)
        raise Unab("vector::insert form")

    def m_erase(self, M, a, t):
        if len(a) == 2 and all(isinstance(x, It) for x in a):
            del self.items[a[0].i:a[1].i]
            return It(self, a[0].i)
        if len(a) == 1 and isinstance(a[0], It):
            del self.items[a[0].i]
            return It(self, a[0].i)
        raise Unab("vector::erase form")

    def m_data(self, M, a, t):
        return It(self, 0)


class It:
    """random-access iterator / pointer into a Vec"""

    def __init__(self, v, i):
        self.v, self.i = v, i

    def show(self):
        return "%s.begin()+%d" % (self.v.name, self.i)

    def __deepcopy__(self, memo):
        return It(self.v, self.i)      # an iterator copy refers to the same container

    def deref(self):
        return self.v.at(self.i)


class Tup:
    """std::pair / tuple / structured-binding source; items may be references"""

    def __init__(self, items):
        self.items = list(items)

    def show(self):
        return "(" + ", ".join(show_val(x.get() if is_ref(x) else x) for x in self.items) + ")"


class Opt:
    """std::optional<std::reference_wrapper<T>> / OptTangent: either empty or a reference to a caller's cell"""

    def __init__(self, cell=None, name="optional"):
        self.cell = cell
        self.name = name

    def __deepcopy__(self, memo):
        return Opt(self.cell, self.name)

    def show(self):
        return "%s(%s)" % (self.name, "empty" if self.cell is None else show_val(self.cell.get()))

    def m_has_value(self, M, a, t):
        return self.cell is not None

    def truth(self):
        return self.cell is not None

    def target(self):
        if self.cell is None:
            raise AbstractViolation("value() of the empty optional %s" % self.name)
        return self.cell

    def m_value(self, M, a, t):
        return OptValue(self)

    def deref(self):
        return OptValue(self)


class OptValue:
    """the reference_wrapper inside an optional: .get() gives the referenced cell; assignment through it writes the cell"""

    def __init__(self, o):
        self.o = o

    def m_get(self, M, a, t):
        return self.o.target()

    def get(self):
        return self.o.target().get()

    def set(self, v):
        self.o.target().set(v)


class Obj:
    """a struct / class instance with named fields"""

    def __init__(self, tname, fields=None):
        self.tname = tname
        self.f = dict(fields or {})

    def show(self):
        return "%s{%s}" % (self.tname, ", ".join("%s=%s" % (k, show_val(v)) for k, v in sorted(self.f.items())))

    def field(self, name):
        if name not in self.f:
            raise Unab("%s has no modelled field %s" % (self.tname, name))
        return ItemRef(self.f, name, "%s.%s" % (self.tname, name))


class Pack:
    """a function parameter pack bound to the remaining arguments"""

    def __init__(self, items):
        self.items = list(items)

    def show(self):
        return "pack(%s)" % ", ".join(show_val(x.get() if is_ref(x) else x) for x in self.items)


class Closure:
    def __init__(self, node, env, this):
        self.node, self.env, self.this = node, env, this


class PyFunc:
    """a client-supplied model of a function: f(M, argument expressions, env) -> value"""

    def __init__(self, f, lazy=False):
        self.f, self.lazy = f, lazy


# ---------------------------------------------------------------------------------------------------------------
# environment
# ---------------------------------------------------------------------------------------------------------------

class Env:
    def __init__(self, parent=None):
        self.d = {}
        self.parent = parent

    def find(self, name):
        e = self
        while e is not None:
            if name in e.d:
                return e.d[name]
            e = e.parent
        return None

    def bind(self, name, ref):
        self.d[name] = ref


INT_TYPES = re.compile(r"\b(int|long|short|unsigned|size_t|Index|ptrdiff_t|int64_t|uint64_t|int32_t|uint32_t|intptr_t|difference_type|size_type|StorageIndex)\b")


def is_int_type(t):
    t = (t or "").strip()
    m = re.match(r"^(?:static_cast|const_cast|reinterpret_cast)\s*<(.*)>$", t)
    if m:
        t = m.group(1)
    if "double" in t or "float" in t or "Scalar" in t or "<" in t:
        return False          # class templates that merely mention an integer type (Eigen::Matrix<int, -1, 1>) are not integers
    return bool(INT_TYPES.search(t))


class Machine:
    def __init__(self, funcs=None, decls=None, type_factory=None, decisions=None, max_steps=200000, int_div=True):
        self.funcs = dict(BUILTINS)
        self.funcs.update(funcs or {})
        self.decls = decls or {}          # short function name -> list of astlib.Decl with bodies (inlined on call)
        self.type_factory = type_factory
        self.dec = decisions if decisions is not None else {}
        self.dec_show = {}
        self.steps = 0
        self.max_steps = max_steps
        self.trace = []
        self.this = None
        self.depth = 0
        self._loaded = set()

    # ---- helpers -------------------------------------------------------------------------------------------
    def tick(self):
        self.steps += 1
        if self.steps > self.max_steps:
            raise Unab("step limit of the abstract machine reached")

    def decide(self, key, show):
        """outcome of an abstract predicate that the scenario explores both ways"""
        if key in self.dec:
            return self.dec[key]
        raise NeedDecision(key, show)

    def copyval(self, v):
        if is_ref(v):
            v = v.get()
        if isinstance(v, OptValue):
            v = v.get()
        if isinstance(v, (Vec, Obj)) or hasattr(v, "__deepcopy__"):
            return copy.deepcopy(v)
        return v

    def truth(self, v):
        if is_ref(v):
            v = v.get()
        if hasattr(v, "truth"):
            return v.truth()
        if isinstance(v, bool):
            return v
        v = simp(v)
        if isinstance(v, Fraction):
            return v != 0
        if isinstance(v, poly.RF):
            return self.compare("!=", v, Fraction(0))
        raise Unab("truth value of %s" % show_val(v))

    def compare(self, op, a, b):
        a, b = simp(a), simp(b)
        if isinstance(a, It) and isinstance(b, It):
            a, b = Fraction(a.i), Fraction(b.i)
        if isinstance(a, bool):
            a = Fraction(int(a))
        if isinstance(b, bool):
            b = Fraction(int(b))
        if isinstance(a, Fraction) and isinstance(b, Fraction):
            return {"<": a < b, "<=": a <= b, ">": a > b, ">=": a >= b, "==": a == b, "!=": a != b}[op]
        if (isinstance(a, float) or isinstance(b, float)) and isinstance(a, (Fraction, float)) and isinstance(b, (Fraction, float)):
            x, y = float(a), float(b)          # IEEE semantics: every ordered comparison with NaN is false
            return {"<": x < y, "<=": x <= y, ">": x > y, ">=": x >= y, "==": x == y, "!=": x != y}[op]
        if is_num(a) and is_num(b):
            d = simp(to_rf(a) - to_rf(b))
            if isinstance(d, Fraction):
                return {"<": d < 0, "<=": d <= 0, ">": d > 0, ">=": d >= 0, "==": d == 0, "!=": d != 0}[op]
            # sign of a non-constant difference: three-way decision (neg / zero / pos), shared between equal differences
            key_neg = "neg|%r|%r" % (sorted(d.n.items()), sorted(d.d.items()))
            m = simp(to_rf(b) - to_rf(a))
            key_pos = "neg|%r|%r" % (sorted(m.n.items()), sorted(m.d.items()))
            self.dec_show[key_neg] = "%s < 0" % show_val(d)
            self.dec_show[key_pos] = "%s > 0" % show_val(d)

            def decide(k):
                if k in self.dec:
                    return self.dec[k]
                raise NeedDecision(k, self.dec_show[k])
            if op in ("<", ">="):
                r = decide(key_neg)
                return r if op == "<" else not r
            if op in (">", "<="):
                if self.dec.get(key_neg) is True:
                    r = False
                else:
                    r = decide(key_pos)
                return r if op == ">" else not r
            # equality: neither negative nor positive
            if self.dec.get(key_neg) is True or self.dec.get(key_pos) is True:
                return op == "!="
            neg = decide(key_neg)
            if neg:
                return op == "!="
            pos = decide(key_pos)
            return (op == "!=") if pos else (op == "==")
        if op in ("==", "!="):
            eq = a is b or a == b
            return eq if op == "==" else not eq
        raise Unab("comparison %s of %s and %s" % (op, show_val(a), show_val(b)))

    # ---- expressions ---------------------------------------------------------------------------------------
    def rv(self, x):
        """strip references"""
        while is_ref(x) or isinstance(x, OptValue):
            x = x.get()
        return x

    def eval(self, e, env):
        return self.rv(self.ev(e, env))

    def lval(self, e, env):
        r = self.ev(e, env)
        if is_ref(r) or isinstance(r, OptValue):
            return r
        return Cell(r)        # a temporary

    def ev(self, e, env):
        """value or reference"""
        self.tick()
        t = e[0]
        if t == "num":
            return Fraction(e[1])
        if t == "bool":
            return bool(e[1])
        if t == "str":
            return e[1]
        if t == "null":
            return None
        if t == "ref":
            return self.name(e[1], env, e[3] if len(e) > 3 else None)
        if t == "this":
            if self.this is None:
                raise Unab("`this` outside a member function")
            return self.this
        if t == "neg":
            v = self.eval(e[1], env)
            return self.arith("-", Fraction(0), v)
        if t == "un":
            return self.unary(e[1], e[2], env)
        if t == "op":
            return self.binop(e, env)
        if t == "cond":
            return self.ev(e[2], env) if self.truth(self.eval(e[1], env)) else self.ev(e[3], env)
        if t == "member":
            base = self.eval(e[1], env)
            return self.member(base, e[2], e[3] if len(e) > 3 else None, env)
        if t == "sub":
            base = self.eval(e[1], env)
            idx = [self.eval(a, env) for a in e[2]]
            return self.index(base, idx)
        if t == "call":
            return self.call(e, env)
        if t == "mcall":
            return self.mcall(e, env)
        if t == "lambda":
            return Closure(e[1], self.init_captures(e[1], env), self.this)
        if t == "init":
            return Vec([self.copyval(self.ev(x, env)) for x in e[1]], "initializer list")
        if t == "ctor":
            return self.construct(e[1], e[2], env)
        if t == "fold":
            return self.fold(e, env)
        if t == "pack":
            raise Unab("pack expansion outside an argument list")
        if t == "default":
            raise Unab("default argument")
        if t == "other":
            return self.other(e, env)
        raise Unab("expression form %s (%s)" % (t, A.show(e)[:60]))

    def pack_names(self, e, env):
        out = []
        for nm in sorted(A.refs(e)):
            r = env.find(nm) if nm else None
            if r is not None and isinstance(self.rv(r), Pack):
                out.append(nm)
        return out

    def expand(self, e, env):
        """environments for the elements of the parameter packs referenced by e"""
        names = self.pack_names(e, env)
        if not names:
            raise Unab("pack expansion without a parameter pack")
        packs = [self.rv(env.find(n)) for n in names]
        n = len(packs[0].items)
        if any(len(p.items) != n for p in packs):
            raise Unab("parameter packs of different lengths")
        envs = []
        for i in range(n):
            sub = Env(env)
            for nm, p in zip(names, packs):
                sub.bind(nm, p.items[i])
            envs.append(sub)
        return envs

    def fold(self, e, env):
        op, subs = e[1], e[2]
        if len(subs) != 1:
            raise Unab("fold expression with an init operand")
        vals = [self.ev(subs[0], sub) for sub in self.expand(subs[0], env)]
        if op == ",":
            return vals[-1] if vals else None
        if not vals:
            if op == "&&":
                return True
            if op == "||":
                return False
            raise Unab("empty fold over %s" % op)
        acc = self.rv(vals[0])
        for v in vals[1:]:
            v = self.rv(v)
            if op in ("&&", "||"):
                acc = (self.truth(acc) and self.truth(v)) if op == "&&" else (self.truth(acc) or self.truth(v))
            else:
                acc = self.arith(op, acc, v)
        return acc

    def init_captures(self, node, env):
        """[name = expr, ...]: the initialisers are evaluated once, where the lambda expression is evaluated, and bound in the closure's own scope"""
        txt = A.text(node) or ""
        m = re.match(r"^\s*\[(.*?)\]\s*(?:<|\(|\{|mutable|->|noexcept|constexpr)", txt, re.S)
        if not m or "=" not in m.group(1).replace("==", ""):
            return env
        items, depth, cur = [], 0, ""
        for ch in m.group(1):
            if ch in "([{<":
                depth += 1
            elif ch in ")]}>":
                depth -= 1
            if ch == "," and depth == 0:
                items.append(cur)
                cur = ""
            else:
                cur += ch
        items.append(cur)
        names = []
        for it in items:
            mm = re.match(r"^\s*&?\s*(\w+)\s*=[^=]", it + " ")
            if mm:
                names.append(mm.group(1))
        if not names:
            return env
        inits = [c for c in A.kids(node) if c.get("kind") not in ("CXXRecordDecl", "CompoundStmt") and not (c.get("kind") or "").endswith(("Type", "TypeLoc", "Attr"))]
        if len(inits) != len(names):
            raise Unab("lambda init-captures %s with %d initialisers" % (names, len(inits)))
        env2 = Env(env)
        for nm, ini in zip(names, inits):
            env2.bind(nm, Cell(self.copyval(self.rv(self.ev(TE(ini), env)))))
        return env2

    def args_values(self, args, env):
        """argument values of a call, expanding `expr...`"""
        out = []
        for a in args:
            if a[0] == "pack":
                out += [self.ev(a[1], sub) for sub in self.expand(a[1], env)]
            else:
                out.append(self.ev(a, env))
        return out

    def other(self, e, env):
        kind, text = e[1], e[2]
        if kind in ("CXXScalarValueInitExpr", "ImplicitValueInitExpr"):
            return Fraction(0)
        if kind == "RequiresExpr" or kind == "ConceptSpecializationExpr":
            h = self.funcs.get("requires")
            if h:
                return h.f(self, text, env)
        if kind in ("UnaryExprOrTypeTraitExpr",):
            raise Unab("sizeof")
        raise Unab("expression kind %s: %s" % (kind, text[:50]))

    def name(self, n, env, text=None):
        r = env.find(n) if text is None else None
        if r is not None:
            return r
        short = short_name(n or "")
        r = env.find(short) if text is None else None
        if r is not None:
            return r
        h = self.funcs.get("name:" + short) or self.funcs.get("name:" + (n or "")) or self.funcs.get("name:*")
        if h is not None:
            r = h.f(self, text or n, env, None)
            if r is not NotImplemented:
                return r
        r = env.find(short)
        if r is not None:
            return r
        if short in self.funcs or short in self.decls:
            return ("funcname", n)
        raise Unab("unknown name %s" % n)

    def unary(self, op, x, env):
        if op in ("++", "--", "++post", "--post"):
            r = self.lval(x, env)
            old = self.rv(r)
            if hasattr(old, "inc") and op.startswith("++"):
                old.inc()
                return r
            if isinstance(old, It):
                new = It(old.v, old.i + (1 if op.startswith("++") else -1))
            else:
                new = self.arith("+" if op.startswith("++") else "-", old, Fraction(1))
            r.set(new)
            return old if op.endswith("post") else r
        v = self.ev(x, env)
        if op == "!":
            return not self.truth(v)
        if op == "*":
            v = self.rv(v)
            if hasattr(v, "deref"):
                return v.deref()
            if isinstance(v, Obj):
                return v          # *this
            raise Unab("dereference of %s" % show_val(v))
        if op in ("&", "->"):
            v2 = self.rv(v)
            if op == "->" and hasattr(v2, "deref"):
                return v2.deref()
            return v
        if op == "~":
            raise Unab("bitwise not")
        raise Unab("unary %s" % op)

    def arith(self, op, a, b):
        a, b = self.rv(a), self.rv(b)
        if isinstance(a, bool):
            a = Fraction(int(a))
        if isinstance(b, bool):
            b = Fraction(int(b))
        if isinstance(a, It) or isinstance(b, It):
            if isinstance(a, It) and isinstance(b, It) and op == "-":
                return Fraction(a.i - b.i)
            if isinstance(a, It) and op in ("+", "-"):
                k = simp(b)
                if isinstance(k, Fraction) and k.denominator == 1:
                    return It(a.v, a.i + int(k) * (1 if op == "+" else -1))
            if isinstance(b, It) and op == "+":
                return self.arith("+", b, a)
            raise Unab("iterator arithmetic %s" % op)
        for x, side in ((a, "l"), (b, "r")):
            h = getattr(x, "op_" + {"+": "add", "-": "sub", "*": "mul", "/": "div"}.get(op, "x"), None)
            if h is not None and not is_num(x):
                return h(self, a, b)
        if not (is_num(a) and is_num(b)):
            raise Unab("arithmetic %s on %s and %s" % (op, show_val(a), show_val(b)))
        if isinstance(a, float) or isinstance(b, float) or (op == "/" and getattr(self, "ieee_division", False) and isinstance(simp(b), Fraction) and simp(b) == 0
                                                           and isinstance(simp(a), Fraction)):
            a_, b_ = simp(a), simp(b)
            if isinstance(a_, poly.RF) or isinstance(b_, poly.RF):
                raise Unab("IEEE special values combined with symbolic numbers")
            x, y = float(a_), float(b_)
            try:
                if op == "/" and y == 0:
                    return float("nan") if (x == 0 or x != x) else (float("inf") if x > 0 else float("-inf"))
                r = {"+": lambda: x + y, "-": lambda: x - y, "*": lambda: x * y, "/": lambda: x / y}[op]()
            except (KeyError, OverflowError, ZeroDivisionError):
                raise Unab("floating special-value arithmetic %s" % op)
            if r != r or r in (float("inf"), float("-inf")):
                return r
            # finite results stay exact whenever both operands were exact
            if isinstance(a_, Fraction) and isinstance(b_, Fraction):
                return {"+": lambda: a_ + b_, "-": lambda: a_ - b_, "*": lambda: a_ * b_, "/": lambda: a_ / b_}[op]()
            return Fraction(r) if r == r and abs(r) != float("inf") else r
        if isinstance(a, poly.RF) or isinstance(b, poly.RF):
            x, y = to_rf(a), to_rf(b)
            if op == "/" and not simp(y):
                raise AbstractViolation("division by zero")
            if op == "%":
                raise Unab("remainder of symbolic numbers")
            return simp({"+": lambda: x + y, "-": lambda: x - y, "*": lambda: x * y, "/": lambda: x / y}[op]())
        a, b = Fraction(a), Fraction(b)
        if op == "+":
            return a + b
        if op == "-":
            return a - b
        if op == "*":
            return a * b
        if op == "/":
            if b == 0:
                raise AbstractViolation("division by zero")
            return a / b
        if op == "%":
            if a.denominator != 1 or b.denominator != 1 or b == 0:
                raise Unab("remainder of non-integers")
            q = abs(int(a)) % abs(int(b))
            return Fraction(q if a >= 0 else -q)
        raise Unab("operator %s" % op)

    def binop(self, e, env):
        op = e[1]
        if op == "&&":
            return self.truth(self.eval(e[2], env)) and self.truth(self.eval(e[3], env))
        if op == "||":
            return self.truth(self.eval(e[2], env)) or self.truth(self.eval(e[3], env))
        if op == ",":
            self.ev(e[2], env)
            return self.ev(e[3], env)
        if op == "=":
            r = self.ev(e[2], env)
            v = self.copyval(self.ev(e[3], env))
            tgt = self.rv_keep_obj(r)
            if hasattr(tgt, "assign_from") and not is_ref(r):
                tgt.assign_from(self, v)
                return r
            if not (is_ref(r) or isinstance(r, OptValue)):
                if hasattr(tgt, "assign_from"):
                    tgt.assign_from(self, v)
                    return r
                raise Unab("assignment to a non-lvalue %s" % A.show(e[2])[:40])
            cur = r.get() if not isinstance(r, OptValue) else None
            if cur is not None and hasattr(cur, "assign_from") and not isinstance(cur, (Vec, Obj)):
                cur.assign_from(self, v)
                return r
            r.set(self.coerce_like(cur, v))
            return r
        if op in ("+=", "-=", "*=", "/=", "%="):
            r = self.ev(e[2], env)
            cur = self.rv(r)
            if isinstance(cur, Obj) and ("operator" + op) in self.decls:
                cands = [d for d in self.decls["operator" + op] if d.qname.split("::")[-2:-1] == [cur.tname] and A.body(d.node) is not None]
                if len(cands) == 1:
                    self.run_function(cands[0], [self.ev(e[3], env)], this=cur)
                    return r
            v = self.eval(e[3], env)
            h = getattr(cur, "iop_" + {"+=": "add", "-=": "sub", "*=": "mul", "/=": "div"}.get(op, "x"), None)
            if h is not None:
                h(self, v)
                return r
            nv = self.arith(op[0], cur, v)
            if isinstance(cur, Fraction) and getattr(r, "is_int", False) and op == "/=":
                nv = Fraction(int(nv))
            if not (is_ref(r) or isinstance(r, OptValue)):
                raise Unab("compound assignment to a non-lvalue")
            r.set(nv)
            return r
        if op in ("<", "<=", ">", ">=", "==", "!="):
            return self.compare(op, self.eval(e[2], env), self.eval(e[3], env))
        if op == "|":
            a = self.eval(e[2], env)
            b = self.ev(e[3], env)
            return self.pipe(a, self.rv(b))
        if op == "<=>":
            x, y = self.eval(e[2], env), self.eval(e[3], env)
            if self.compare("<", x, y):
                return Fraction(-1)
            return Fraction(1) if self.compare(">", x, y) else Fraction(0)
        a, b = self.eval(e[2], env), self.eval(e[3], env)
        if op == "/" and self.int_division(e, a, b, env):
            a_, b_ = simp(a), simp(b)
            if b_ == 0:
                raise AbstractViolation("integer division by zero")
            q = abs(a_.numerator * b_.denominator) // abs(a_.denominator * b_.numerator)
            return Fraction(q if (a_ >= 0) == (b_ >= 0) else -q)
        return self.arith(op, a, b)

    def rv_keep_obj(self, r):
        return self.rv(r)

    def coerce_like(self, cur, v):
        return v

    def int_division(self, e, a, b, env):
        """C++ integer division: both operands are integer-valued *and* integer-typed.  Types are not in the expression tuples, so the
        machine tracks integer-ness by value: a division of two concrete integers whose operands contain no floating literal, cast to a
        floating type, or floating-typed variable is an integer division."""
        a, b = simp(a), simp(b)
        if not (isinstance(a, Fraction) and isinstance(b, Fraction) and a.denominator == 1 and b.denominator == 1):
            return False
        return self.int_typed(e[2], env) and self.int_typed(e[3], env)

    def int_typed(self, e, env):
        t = e[0]
        if t == "num":
            return e[1].denominator == 1 and len(e) < 3
        if t == "ref":
            r = env.find(e[1])
            if r is None:
                r = env.find(re.sub(r"<.*$", "", e[1] or "").split("::")[-1])
            return bool(getattr(r, "is_int", True)) if r is not None else True
        if t in ("neg",):
            return self.int_typed(e[1], env)
        if t == "op":
            return self.int_typed(e[2], env) and self.int_typed(e[3], env)
        if t == "cond":
            return self.int_typed(e[2], env) and self.int_typed(e[3], env)
        if t == "mcall":
            return e[2] in ("size", "rows", "cols", "row", "col", "index", "outerSize", "innerSize", "nonZeros", "ssize")
        if t == "call":
            nm = re.sub(r"<.*$", "", str(e[1])).split("::")[-1] if isinstance(e[1], str) else ""
            full = str(e[1]) if isinstance(e[1], str) else ""
            if nm in ("static_cast",) or "static_cast" in full:
                return is_int_type(full)
            if nm in ("size", "ssize", "distance"):
                return True
            if nm in ("min", "max", "clamp"):
                return all(self.int_typed(a, env) for a in e[2])
            return False
        if t == "ctor":
            return is_int_type(e[1])
        if t == "sub":
            return False
        return False

    def pipe(self, a, b):
        """range | adaptor"""
        if isinstance(b, RangeAdaptor):
            return b.apply(self, a)
        raise Unab("operator| with %s" % show_val(b))

    def member(self, base, name, targs, env):
        if isinstance(base, Obj):
            return base.field(name)
        if isinstance(base, Tup) and name in ("first", "second"):
            return base.items[0 if name == "first" else 1]
        h = getattr(base, "f_" + name, None)
        if h is not None:
            return h(self)
        raise Unab("member %s of %s" % (name, show_val(base)))

    def index(self, base, idx):
        if isinstance(base, Vec):
            if len(idx) != 1:
                raise Unab("%d indices on %s" % (len(idx), base.name))
            return base.at(idx[0])
        if isinstance(base, It) and len(idx) == 1:
            k = simp(idx[0])
            return base.v.at(base.i + int(k))
        if isinstance(base, tuple) and base and base[0] == "funcname":
            # a function object called through operator() (range adaptor objects such as std::views::drop)
            short = short_name(base[1])
            if short in self.funcs:
                return self.apply(self.funcs[short], [Cell(x) for x in idx], None, None, name=base[1])
            raise Unab("call of the function object %s" % base[1])
        h = getattr(base, "index", None) if not isinstance(base, (tuple, list, str)) else None
        if h is not None:
            return h(self, idx)
        if isinstance(base, Closure) or isinstance(base, PyFunc):
            return self.apply(base, [Cell(x) for x in idx], None, None)
        raise Unab("subscript of %s" % show_val(base))

    # ---- calls ---------------------------------------------------------------------------------------------
    def call(self, e, env):
        cal, args = e[1], e[2]
        if isinstance(cal, tuple):
            f = self.eval(cal, env)
            return self.apply(f, None, args, env)
        full = cal or ""
        short = short_name(full)
        hook = self.funcs.get("call:*")
        if hook is not None:
            res = hook.f(self, args, env, full)
            if res is not NotImplemented:
                return res
        r = env.find(short) if "::" not in full else None
        if r is not None:
            f = self.rv(r)
            if getattr(self, "scalar_vectors", False) and (is_num(f) or f is UNSET):
                # a vector whose dimension is abstracted to one: v(0) is the scalar itself
                idx = [simp(self.eval(a, env)) for a in args]
                if all(isinstance(i, Fraction) and i == 0 for i in idx):
                    return r
                raise AbstractViolation("coordinate %s of a vector of (abstract) dimension 1" % [show_val(i) for i in idx])
            if isinstance(f, (Closure, PyFunc)) or (hasattr(f, "index") and not isinstance(f, (tuple, list, str))) or isinstance(f, Vec):
                if isinstance(f, (Closure, PyFunc)):
                    return self.apply(f, None, args, env)
                return self.index(f, [self.eval(a, env) for a in args])
        for key in (full, re.sub(r"<.*$", "", full), short):
            if key in self.funcs:
                f = self.funcs[key]
                return self.apply(f, None, args, env, name=full)
        if short not in self.decls and short and short not in self._loaded and re.match(r"^[A-Za-z_]\w*$", short):
            # a helper the client did not dump (e.g. extracted by a refactoring): fetch its declaration on demand
            self._loaded.add(short)
            got = load_decls(short)
            if got:
                self.decls[short] = got
        if short in self.decls:
            return self.inline(short, full, args, env)
        raise Unab("call of %s (no model and no body in the index)" % full)

    def apply(self, f, argvals, argexprs, env, name=None):
        if isinstance(f, tuple) and f and f[0] == "funcname":
            return self.call(("call", f[1], argexprs), env)
        if isinstance(f, PyFunc):
            if f.lazy:
                return f.f(self, argexprs if argexprs is not None else argvals, env, name)
            vals = argvals if argvals is not None else self.args_values(argexprs, env)
            return f.f(self, [self.rv(v) for v in vals])
        if isinstance(f, Closure):
            vals = argvals if argvals is not None else self.args_values(argexprs, env)
            return self.run_lambda(f, vals)
        if hasattr(f, "call"):
            vals = argvals if argvals is not None else self.args_values(argexprs, env)
            return f.call(self, vals)
        raise Unab("call of a non-function %s" % show_val(f))

    def bind_params(self, params, vals, new, what):
        ps = [p for p in params]
        if ps and "..." in ps[-1].get("type", {}).get("qualType", ""):
            # trailing parameter pack: bound to all remaining arguments
            head, pack = ps[:-1], ps[-1]
            rest = vals[len(head):]
            vals = list(vals[:len(head)])
            new.bind(pack.get("name"), Cell(Pack([v if (is_ref(v) or isinstance(v, OptValue)) else Cell(self.copyval(v)) for v in rest])))
            ps = head
        if len(vals) > len(ps):
            raise Unab("%s called with %d arguments, %d parameters" % (what, len(vals), len(ps)))
        for i, p in enumerate(ps):
            ty = p.get("type", {}).get("qualType", "")
            if i < len(vals):
                v = vals[i]
            else:
                ks = A.kids(p)
                if not ks:
                    raise Unab("%s: missing argument %s" % (what, p.get("name")))
                v = self.ev(TE(ks[-1]), new)
                if isinstance(self.rv(v), Vec) and self.rv(v).name == "initializer list" and not self.rv(v).items:
                    v = self.default_value(ty, p.get("name"), new)       # `= {}`
            byref = ty.rstrip().endswith("&") or ty.rstrip().endswith("&&") or "auto &&" in ty
            if byref and (is_ref(v) or isinstance(v, OptValue)):
                cell = v
            else:
                cell = Cell(self.copyval(v))
            try:
                cell.is_int = is_int_type(ty)
            except AttributeError:
                pass
            if p.get("name"):
                new.bind(p.get("name"), cell)

    def run_lambda(self, c, vals):
        lam = c.node
        body = A.lambda_body(lam)
        if body is None:
            raise Unab("lambda without a body")
        # parameters: the call operator's ParmVarDecls
        ps = []
        for k in A.kids(lam):
            if k.get("kind") == "CXXRecordDecl":
                for m in A.kids(k):
                    if m.get("kind") in ("CXXMethodDecl", "FunctionTemplateDecl") and (m.get("name") == "operator()"):
                        mm = m
                        if m.get("kind") == "FunctionTemplateDecl":
                            mm = next((x for x in A.kids(m) if x.get("kind") == "CXXMethodDecl"), None)
                        if mm is not None and not ps:
                            ps = A.params(mm)
        new = Env(c.env)
        self.bind_params(ps, vals, new, "lambda")
        saved = self.this
        self.this = c.this
        self.depth += 1
        if self.depth > 40:
            raise Unab("call depth")
        try:
            self.run(body, new)
            return None
        except _Return as r:
            return r.value
        finally:
            self.this = saved
            self.depth -= 1

    def inline(self, short, full, args, env, this=None, targs=None):
        cands = [d for d in self.decls[short] if A.body(d.node) is not None and len(A.params(d.node)) >= len(args)
                 and sum(1 for p in A.params(d.node) if not A.kids(p)) <= len(args)]
        if "::" in full:
            q = re.sub(r"<[^<>]*>", "", full)
            q = re.sub(r"<[^<>]*>", "", q).replace("::template ", "::")
            scoped = [d for d in cands if d.qname.endswith(q.lstrip(":")) or q.lstrip(":").endswith(d.qname)]
            if scoped:
                cands = scoped
        if len(cands) != 1:
            h = self.funcs.get("select:" + short)
            if h is not None:
                cands = [h.f(self, cands, full, args, env)]
            else:
                raise Unab("call of %s resolves to %d bodies" % (full, len(cands)))
        d = cands[0]
        vals = self.args_values(args, env)
        return self.run_function(d, vals, this=this, full=full, caller_env=env)

    def run_function(self, d, vals, this=None, full=None, genv=None, caller_env=None):
        new = Env(genv if genv is not None else self.global_env)
        h = self.funcs.get("enter:" + d.qname.split("::")[-1]) or self.funcs.get("enter:*")
        if h is not None:
            h.f(self, (d, full, new, caller_env), None, None)
        # explicit template arguments f<a, b>(...): non-type parameters become constants of the callee
        if getattr(d, "tparams", None) and full and caller_env is not None:
            m = re.search(r"<(.*)>$", full.strip())
            if m:
                targs = []
                depth, cur = 0, ""
                for ch in m.group(1):
                    if ch in "<(":
                        depth += 1
                    elif ch in ">)":
                        depth -= 1
                    if ch == "," and depth == 0:
                        targs.append(cur)
                        cur = ""
                    else:
                        cur += ch
                if cur.strip():
                    targs.append(cur)
                for pn, ta in zip(d.tparams, targs):
                    ta = ta.strip()
                    val = None
                    if re.match(r"^-?\d+$", ta):
                        val = Fraction(int(ta))
                    elif re.match(r"^[A-Za-z_]\w*$", ta):
                        r_ = caller_env.find(ta)
                        if r_ is not None and is_num(self.rv(r_)):
                            val = self.rv(r_)
                    elif ta in ("true", "false"):
                        val = ta == "true"
                    if val is not None and pn:
                        new.bind(pn, Cell(val, True))
        self.bind_params(A.params(d.node), vals, new, d.qname)
        saved = self.this
        self.this = this
        self.depth += 1
        if self.depth > 40:
            raise Unab("call depth")
        try:
            self.run(A.body(d.node), new)
            return None
        except _Return as r:
            return r.value
        finally:
            self.this = saved
            self.depth -= 1

    global_env = None

    def mcall(self, e, env):
        objx, meth, targs, args = e[1], e[2], e[3], e[4]
        self.call_env = env
        o = self.ev(objx, env)
        base = self.rv(o)
        if isinstance(o, OptValue) and meth == "get":
            return o.m_get(self, [], targs)
        if isinstance(base, Obj) and meth in self.decls:
            cands = [d for d in self.decls[meth] if A.body(d.node) is not None and d.qname.split("::")[-2:-1] == [base.tname]
                     and len(A.params(d.node)) >= len(args) and sum(1 for p in A.params(d.node) if not A.kids(p)) <= len(args)]
            if len(cands) == 2:
                # a const / non-const overload pair with the same parameters denotes one member: the mutable one subsumes it on the abstract state
                nc = [d for d in cands if not re.search(r"\)\s*const\b", d.node.get("type", {}).get("qualType", ""))]
                if len(nc) == 1 and len(A.params(cands[0].node)) == len(A.params(cands[1].node)):
                    cands = nc
            if len(cands) == 1:
                return self.run_function(cands[0], self.args_values(args, env), this=base)
        if meth == "operator()" or meth == "operator[]":
            return self.index(base, [self.eval(a, env) for a in args])
        h = getattr(base, "m_" + meth, None)
        if h is None and meth.startswith("operator ") and hasattr(base, "truth") and meth.split()[-1] == "bool":
            return base.truth()           # explicit conversion to bool (for (It it(...); it; ++it) on a non-dependent iterator type)
        self.call_env = env
        if h is not None:
            lazy = getattr(h, "lazy", False)
            if lazy:
                return h(self, args, targs, env)
            return h(self, [self.rv(v) if not getattr(h, "refs", False) else v for v in self.args_values(args, env)], targs)
        g = self.funcs.get("method:" + meth)
        if g is not None:
            return g.f(self, o, self.args_values(args, env), targs, env)
        if isinstance(base, Obj) and meth in self.decls:
            cands = [d for d in self.decls[meth] if A.body(d.node) is not None and d.qname.split("::")[-2:-1] == [base.tname]
                     and len(A.params(d.node)) >= len(args)]
            if len(cands) == 1:
                return self.run_function(cands[0], self.args_values(args, env), this=base)
        if is_num(base):
            if meth in ("eval", "value", "derived"):
                return base
            if meth in ("x",):
                return base
        if isinstance(base, Obj) and objx == ("this",) and meth in self.funcs:
            # a dependent qualified call (Tangent<G>::Zero()) is parsed as a possible member of a dependent base
            return self.apply(self.funcs[meth], None, args, env, name=meth)
        raise Unab("method %s of %s" % (meth, show_val(base)[:60]))

    # ---- class instances ------------------------------------------------------------------------------------
    def field_defaults(self, cls, obj, env):
        rec = getattr(self, "records", {}).get(cls)
        if rec is None:
            return
        for k in A.kids(rec):
            if k.get("kind") == "FieldDecl":
                ks = [c for c in A.kids(k) if not (c.get("kind") or "").endswith(("Attr", "Comment"))]
                ty = k.get("type", {}).get("qualType", "")
                if ks:
                    n0 = A.strip(ks[-1])
                    if n0.get("kind") in ("InitListExpr", "ParenListExpr") and not A.kids(n0):
                        obj.f[k.get("name")] = self.default_value(ty, k.get("name"), env)
                    else:
                        v = self.rv(self.ev(TE(ks[-1]), env))
                        if isinstance(v, Vec) and v.name == "initializer list":
                            v = v.items[0] if len(v.items) == 1 else (self.default_value(ty, k.get("name"), env) if not v.items else v)
                        obj.f[k.get("name")] = self.copyval(v)
                else:
                    obj.f[k.get("name")] = self.default_value(ty, k.get("name"), env)

    def ctor_score(self, d, vals):
        """how well a constructor's parameter types fit the argument values (clients refine this through `ctor_match`)"""
        h = getattr(self, "ctor_match", None)
        score = 0
        for p, v in zip(A.params(d.node), vals):
            ty = p.get("type", {}).get("qualType", "")
            if h is not None:
                r = h(ty, self.rv(v))
                if r is False:
                    return None
                score += 1 if r else 0
        return score

    def construct_record(self, cls, vals, env=None):
        ctors = [d for d in self.decls.get(cls, []) if d.kind == "CXXConstructorDecl" and d.qname.split("::")[-2:-1] == [cls]
                 and len(A.params(d.node)) >= len(vals) and sum(1 for p in A.params(d.node) if not A.kids(p)) <= len(vals)]
        scored = [(self.ctor_score(d, vals), d) for d in ctors]
        scored = [(sc, d) for sc, d in scored if sc is not None]
        if not scored:
            raise Unab("no constructor of %s for %d argument(s)" % (cls, len(vals)))
        best = max(sc for sc, _ in scored)
        pick = [d for sc, d in scored if sc == best]
        d = pick[0]
        obj = Obj(cls)
        new = Env(self.global_env)
        self.field_defaults(cls, obj, new)
        self.bind_params(A.params(d.node), vals, new, d.qname)
        saved = self.this
        self.this = obj
        self.depth += 1
        if self.depth > 40:
            raise Unab("call depth")
        try:
            for k in A.kids(d.node):
                if k.get("kind") != "CXXCtorInitializer":
                    continue
                init = [c for c in A.kids(k)]
                n0 = A.strip(init[0]) if init else {}
                if n0.get("kind") in ("InitListExpr", "ParenListExpr", "CXXConstructExpr", "CXXUnresolvedConstructExpr", "CXXTemporaryObjectExpr"):
                    argx = [TE(c) for c in A.kids(n0) if c.get("kind") != "CXXDefaultArgExpr"]
                else:
                    argx = [TE(init[0])] if init else []
                if "anyInit" in k:
                    fname = k["anyInit"].get("name")
                    fty = k["anyInit"].get("type", {}).get("qualType", "")
                    if len(argx) == 1:
                        obj.f[fname] = self.copyval(self.ev(argx[0], new))
                    elif not argx:
                        obj.f[fname] = self.default_value(fty, fname, new)
                    else:
                        obj.f[fname] = self.construct(fty, argx, new)
                else:
                    tmp = self.construct_record(cls, [self.ev(a, new) for a in argx], new)
                    obj.f.update(tmp.f)
            self.run(A.body(d.node), new)
        except _Return:
            pass
        finally:
            self.this = saved
            self.depth -= 1
        return obj

    def construct(self, ty, args, env):
        tyn = re.sub(r"\s+", "", ty or "")
        args = [a for a in args if a != ("default",)]
        if self.type_factory is not None:
            r = self.type_factory(self, tyn, args, env)
            if r is not NotImplemented:
                return r
        if re.match(r"^(const)?std::span<", tyn) and len(args) == 2:
            # std::span<T, N>(pointer, count): a window onto a contiguous container (read through; the window is materialised)
            vals = [self.eval(a, env) for a in args]
            if isinstance(vals[0], It) and is_num(vals[1]):
                n = int(simp(vals[1]))
                if vals[0].i < 0 or vals[0].i + n > len(vals[0].v.items):
                    raise AbstractViolation("std::span of %d elements at position %d of %s (size %d)" % (n, vals[0].i, vals[0].v.name, len(vals[0].v.items)))
                return Vec(vals[0].v.items[vals[0].i:vals[0].i + n], vals[0].v.name + "[span]")
            raise Unab("std::span constructor form")
        if re.match(r"^(const)?(std::)?(vector|array)<", tyn) or tyn.startswith("std::vector") or "vector<" in tyn.split("(")[0][:40]:
            vals = [self.eval(a, env) for a in args]
            if len(vals) == 0:
                return Vec([], "vector")
            if len(vals) == 2 and isinstance(vals[0], It) and isinstance(vals[1], It):
                return Vec([self.copyval(x) for x in vals[0].v.items[vals[0].i:vals[1].i]], "vector")
            if len(vals) == 1 and isinstance(vals[0], Vec):
                return self.copyval(vals[0])
            if len(vals) in (1, 2) and is_num(vals[0]):
                n = int(simp(vals[0]))
                return Vec([self.copyval(vals[1]) if len(vals) == 2 else UNSET for _ in range(n)], "vector")
            raise Unab("vector constructor form (%d arguments)" % len(vals))
        if is_int_type(tyn) or tyn in ("double", "float", "constdouble", "Scalar", "bool", "constauto", "auto", "S", "T", "_Scalar", "Scalar_", "void") or tyn.endswith("Scalar"):
            if len(args) == 1:
                v = self.eval(args[0], env)
                if isinstance(v, Vec) and v.name == "initializer list":
                    v = self.rv(v.items[0]) if len(v.items) == 1 else (Fraction(0) if not v.items else v)      # T{x}, T{}
                if is_int_type(tyn) and isinstance(v, float):
                    raise AbstractViolation("conversion of %s to the integer type %s" % (v, ty))
                if is_int_type(tyn) and isinstance(simp(v), Fraction):
                    v = simp(v)
                    r = Fraction(int(v)) if v >= 0 else -Fraction(int(-v))
                    if abs(r) >= 2 ** 63:
                        # no integer type holds it: a floating-point -> integer conversion outside the destination's range is undefined behaviour
                        raise AbstractViolation("conversion of the value %.3g (magnitude >= 2^63) to the integer type %s is undefined" % (float(v), ty))
                    return r
                return v
            if not args:
                return Fraction(0)
        if re.match(r"^(const)?std::(pair|tuple)<", tyn):
            return Tup([Cell(self.copyval(self.ev(a, env))) for a in args])
        if len(args) == 1:
            v = self.ev(args[0], env)
            # copy / conversion constructor of an unmodelled type: the value itself
            return self.copyval(v)
        if not args:
            return self.default_value(ty, None, env)     # default-initialised object of an unmodelled type
        raise Unab("construction of %s with %d arguments" % (ty, len(args)))

    # ---- statements ----------------------------------------------------------------------------------------
    def declare(self, v, env):
        nm = v.get("name")
        ty = v.get("type", {}).get("qualType", "")
        ks = [k for k in A.kids(v) if not (k.get("kind") or "").endswith(("Attr", "Comment"))]
        isref = ty.rstrip().endswith("&") or ty.rstrip().endswith("&&")
        if v.get("kind") == "DecompositionDecl":
            inits = [k for k in ks if k.get("kind") != "BindingDecl"]
            src = self.ev(TE(inits[-1]), env) if inits else None
            names = [b.get("name") for b in ks if b.get("kind") == "BindingDecl"]
            srcv = self.rv(src)
            items = srcv.items if isinstance(srcv, (Tup, Vec)) else None
            if items is None or len(items) != len(names):
                raise Unab("structured binding of %s" % show_val(srcv))
            for n_, it in zip(names, items):
                if isinstance(srcv, Vec):
                    env.bind(n_, ItemRef(srcv.items, items.index(it)) if isref else Cell(self.copyval(it)))
                else:
                    env.bind(n_, it if (is_ref(it) and isref) else Cell(self.copyval(it)))
            return
        if not ks or v.get("init") is None and not ks:
            val = self.default_value(ty, nm, env)
            c = Cell(val)
            c.is_int = is_int_type(ty)
            env.bind(nm, c)
            return
        init = TE(ks[-1])
        if v.get("init") == "call" and A.strip(ks[-1]).get("kind") in ("CXXConstructExpr", "CXXTemporaryObjectExpr", "CXXUnresolvedConstructExpr", "ParenListExpr", "InitListExpr"):
            # direct-initialisation T x(a, b) / T x{a, b}: construct an object of the declared type
            n0 = A.strip(ks[-1])
            cargs = [TE(c) for c in A.kids(n0) if c.get("kind") != "CXXDefaultArgExpr"]
            r = self.construct(ty, cargs, env)
        elif v.get("init") == "list" and A.strip(ks[-1]).get("kind") == "InitListExpr":
            cargs = [TE(c) for c in A.kids(A.strip(ks[-1]))]
            r = self.construct(ty, cargs, env) if self.constructible(ty) else self.ev(init, env)
        else:
            r = self.ev(init, env)
            rr = self.rv(r)
            if isinstance(rr, Vec) and rr.name == "initializer list" and A.strip(ks[-1]).get("kind") == "InitListExpr" and self.type_factory is not None:
                # copy-list-initialisation T x = {a, b}: an object of the declared type when the client models that type
                made = self.type_factory(self, re.sub(r"\s+", "", ty or ""), [TE(c) for c in A.kids(A.strip(ks[-1]))], env)
                if made is not NotImplemented:
                    r = made
        if isref and (is_ref(r) or isinstance(r, OptValue)):
            env.bind(nm, r)
            return
        rr = self.rv(r)
        if "array<" in (ty or "") and isinstance(rr, Vec) and len(rr.items) == 1 and isinstance(self.rv(rr.items[0]), Vec):
            m_ = re.search(r",\s*(\d+)\s*>\s*$", (ty or "").replace("const ", "").strip())
            inner = self.rv(rr.items[0])
            if m_ is None or len(inner.items) == int(m_.group(1)):
                r = inner              # std::array aggregate initialised with the extra pair of braces
        val = self.copyval(r)
        if is_int_type(ty) and isinstance(simp(val) if is_num(val) else None, Fraction):
            q = simp(val)
            val = Fraction(int(q)) if q >= 0 else -Fraction(int(-q))
        c = Cell(val)
        c.is_int = is_int_type(ty) or (ty.replace("const ", "").strip() == "auto" and self.int_typed(init, env) and isinstance(val, Fraction) and val.denominator == 1)
        env.bind(nm, c)

    def constructible(self, ty):
        return True

    def default_value(self, ty, nm, env):
        tyn = re.sub(r"\s+", "", ty or "")
        if self.type_factory is not None:
            r = self.type_factory(self, tyn, None, env)
            if r is not NotImplemented:
                return r
        if "vector<" in tyn or tyn.startswith("std::array"):
            return Vec([], nm or "vector")
        return UNSET

    def run(self, s, env):
        self.tick()
        if s is None:
            return
        k = s.get("kind")
        ks = A.kids(s)
        if k == "CompoundStmt":
            new = Env(env)
            for c in ks:
                self.run(c, new)
        elif k == "DeclStmt":
            for v in ks:
                vk = v.get("kind")
                if vk in ("VarDecl", "DecompositionDecl"):
                    self.declare(v, env)
                elif vk in ("TypeAliasDecl", "TypedefDecl"):
                    h = getattr(self, "on_type_alias", None)
                    if h is not None:
                        h(v.get("name"), re.sub(r"\s+", "", v.get("type", {}).get("qualType", "")), env)
                    continue
                elif vk in ("StaticAssertDecl", "UsingDecl", "UsingDirectiveDecl", "CXXRecordDecl", "EnumDecl", "UsingShadowDecl", "UsingEnumDecl"):
                    continue
                else:
                    raise Unab("declaration kind %s" % vk)
        elif k == "IfStmt":
            idx = 0
            new = Env(env)
            parts = list(ks)
            if s.get("hasInit"):
                self.run(parts[0], new)
                parts = parts[1:]
            if s.get("hasVar"):
                self.run(parts[0], new)
                parts = parts[1:]
            cond = self.truth(self.eval(TE(parts[0]), new))
            if cond:
                self.run(parts[1], new)
            elif len(parts) > 2:
                self.run(parts[2], new)
        elif k == "ForStmt":
            init, cv, cond, inc, body = (ks + [None] * 5)[:5]
            new = Env(env)
            if init is not None and init.get("kind"):
                self.run(init, new)
            while True:
                if cond is not None and cond.get("kind"):
                    if not self.truth(self.eval(TE(cond), new)):
                        break
                try:
                    self.run(body, Env(new))
                except _Break:
                    break
                except _Continue:
                    pass
                if inc is not None and inc.get("kind"):
                    self.ev(TE(inc), new)
                self.tick()
        elif k == "WhileStmt":
            cond, body = ks[-2], ks[-1]
            while self.truth(self.eval(TE(cond), env)):
                try:
                    self.run(body, Env(env))
                except _Break:
                    break
                except _Continue:
                    pass
                self.tick()
        elif k == "DoStmt":
            body, cond = ks[0], ks[1]
            while True:
                try:
                    self.run(body, Env(env))
                except _Break:
                    break
                except _Continue:
                    pass
                if not self.truth(self.eval(TE(cond), env)):
                    break
                self.tick()
        elif k == "CXXForRangeStmt":
            self.range_for(s, env)
        elif k == "ReturnStmt":
            raise _Return(self.copyval(self.ev(TE(ks[0]), env)) if ks else None)
        elif k == "BreakStmt":
            raise _Break()
        elif k == "ContinueStmt":
            raise _Continue()
        elif k in ("NullStmt",) or k is None:
            return
        elif k in ("ExprWithCleanups", "ImplicitCastExpr", "ParenExpr", "CXXBindTemporaryExpr", "MaterializeTemporaryExpr"):
            self.run(ks[0], env)
        elif k in ("BinaryOperator", "CompoundAssignOperator", "CXXOperatorCallExpr", "UnaryOperator", "CallExpr", "CXXMemberCallExpr",
                   "ConditionalOperator", "CXXConstructExpr", "CXXFunctionalCastExpr", "CStyleCastExpr", "CXXStaticCastExpr", "LambdaExpr", "DeclRefExpr",
                   "CXXUnresolvedConstructExpr", "CXXDependentScopeMemberExpr", "MemberExpr", "CXXFoldExpr", "ParenExpr", "ExprWithCleanups"):
            e = TE(s)
            if e[0] == "call" and isinstance(e[1], str) and re.sub(r"<.*$", "", e[1]).split("::")[-1] in ("assert", "__assert_fail", "static_assert"):
                return
            self.ev(e, env)
        elif k in ("StaticAssertDecl", "TypeAliasDecl"):
            return
        elif k == "AttributedStmt":
            self.run(ks[-1], env)
        else:
            raise Unab("statement kind %s" % k)

    def range_for(self, s, env):
        ks = A.kids(s)
        new = Env(env)
        rng = None
        loopvar = None
        for c in ks[:-1]:
            if c is None or not c.get("kind"):
                continue
            if c.get("kind") == "DeclStmt":
                for v in A.kids(c):
                    nm = v.get("name") or ""
                    if nm.startswith("__range") and A.kids(v):
                        rng = self.ev(TE(A.kids(v)[-1]), new)
                    elif nm.startswith("__begin") or nm.startswith("__end"):
                        continue
                    elif v.get("kind") in ("VarDecl", "DecompositionDecl"):
                        if nm.startswith("__"):
                            continue
                        loopvar = v
                        if A.kids(v) and not any(x.get("kind") in ("BindingDecl",) for x in A.kids(v)) and v.get("kind") == "VarDecl" and rng is None:
                            # an init-statement `for (Index k = 0; auto & x : r)`
                            self.declare(v, new)
                            loopvar = None
        if rng is None or loopvar is None:
            raise Unab("range-based for: range / loop variable not recognised")
        rv = self.rv(rng)
        if isinstance(rv, Vec):
            refs = [ItemRef(rv.items, i, "%s[%d]" % (rv.name, i)) for i in range(len(rv.items))]
        elif hasattr(rv, "iterate"):
            refs = rv.iterate(self)
        else:
            raise Unab("range-based for over %s" % show_val(rv))
        ty = loopvar.get("type", {}).get("qualType", "")
        isref = ty.rstrip().endswith("&") or ty.rstrip().endswith("&&")
        for r in refs:
            it = Env(new)
            if loopvar.get("kind") == "DecompositionDecl":
                names = [b.get("name") for b in A.kids(loopvar) if b.get("kind") == "BindingDecl"]
                src = self.rv(r)
                items = src.items if isinstance(src, (Tup, Vec)) else None
                if items is None or len(items) != len(names):
                    raise Unab("structured binding of %s in a range-for" % show_val(src))
                for n_, x in zip(names, items):
                    it.bind(n_, x if (is_ref(x) and isref) else Cell(self.copyval(x)))
            else:
                if isref and is_ref(r):
                    it.bind(loopvar.get("name"), r)
                else:
                    c = Cell(self.copyval(r))
                    c.is_int = is_int_type(ty) or isinstance(c.v, Fraction) and c.v.denominator == 1 and getattr(rv, "ints", False)
                    it.bind(loopvar.get("name"), c)
            try:
                self.run(ks[-1], it)
            except _Break:
                break
            except _Continue:
                pass
            self.tick()


class RangeAdaptor:
    def __init__(self, name, f):
        self.name, self.f = name, f

    def apply(self, M, rng):
        return self.f(M, rng)

    def call(self, M, vals):
        # views::take(n) etc: returns a bound adaptor
        return RangeAdaptor(self.name, lambda M_, r: self.f(M_, r, *[M.rv(v) for v in vals]))

    def show(self):
        return "views::" + self.name


# ---------------------------------------------------------------------------------------------------------------
# builtin function models
# ---------------------------------------------------------------------------------------------------------------

def _pure(f):
    def g(M, vals):
        try:
            return f(M, *vals)
        except (ValueError, TypeError, OverflowError, AttributeError) as ex:
            raise Unab("library model applied to unexpected values (%s)" % ex)
    return PyFunc(g)


def _minmax(which):
    def f(M, *vals):
        if len(vals) == 1 and isinstance(vals[0], Vec):
            vals = vals[0].items
        best = vals[0]
        for v in vals[1:]:
            if which == "min":
                if M.compare("<", v, best):
                    best = v
            else:
                if M.compare("<", best, v):
                    best = v
        return best
    return f


def _clamp(M, v, lo, hi):
    if M.compare("<", v, lo):
        return lo
    if M.compare("<", hi, v):
        return hi
    return v


def _cast(M, args, env, name):
    v = M.eval(args[0], env)
    if is_int_type(name or "") and isinstance(v, float):
        raise AbstractViolation("conversion of %s to an integer type" % v)
    if is_int_type(name or "") and is_num(v):
        q = simp(v)
        if isinstance(q, Fraction):
            r = Fraction(int(q)) if q >= 0 else -Fraction(int(-q))
            if abs(r) >= 2 ** 63:
                # no integer type holds it: a floating-point -> integer conversion outside the destination's range is undefined behaviour
                raise AbstractViolation("conversion of the value %s (magnitude >= 2^63) to an integer type is undefined" % (("%.3g" % float(q))))
            return r
    return v


def _ident_ref(M, args, env, name):
    return M.ev(args[0], env)


def _size(M, v):
    if isinstance(v, Vec):
        return Fraction(len(v.items))
    h = getattr(v, "m_size", None)
    if h:
        return h(M, [], None)
    raise Unab("size of %s" % show_val(v))


def _distance(M, a, b):
    return M.arith("-", b, a)


def _next(M, it, n=Fraction(1), bound=None):
    if not isinstance(it, It):
        raise Unab("std::next of a non-iterator")
    k = it.i + int(simp(n))
    if bound is not None:
        k = min(k, bound.i) if int(simp(n)) >= 0 else max(k, bound.i)
    return It(it.v, k)


def _prev(M, it, n=Fraction(1)):
    return It(it.v, it.i - int(simp(n)))


def _abs(M, v):
    return M.arith("-", Fraction(0), v) if M.compare("<", v, Fraction(0)) else v


def _sqrt(M, v):
    v = simp(v)
    if isinstance(v, Fraction) and v >= 0:
        import math
        n, d = math.isqrt(v.numerator), math.isqrt(v.denominator)
        if n * n == v.numerator and d * d == v.denominator:
            return Fraction(n, d)
    raise Unab("sqrt of %s" % show_val(v))


def _pow(M, b, e):
    e = simp(e)
    if isinstance(e, Fraction) and e.denominator == 1:
        r = Fraction(1)
        for _ in range(abs(int(e))):
            r = M.arith("*", r, b)
        return r if e >= 0 else M.arith("/", Fraction(1), r)
    raise Unab("pow with a non-integer exponent")


def _floor(M, v):
    v = simp(v)
    if isinstance(v, Fraction):
        return Fraction(v.numerator // v.denominator)
    raise Unab("floor of a symbolic number")


def _ceil(M, v):
    v = simp(v)
    if isinstance(v, Fraction):
        return Fraction(-((-v.numerator) // v.denominator))
    raise Unab("ceil of a symbolic number")


def _iota(M, *a):
    if len(a) == 2:
        lo, hi = int(simp(a[0])), int(simp(a[1]))
        v = Vec([Fraction(i) for i in range(lo, hi)], "iota")
        v.ints = True
        return v
    if len(a) == 1:
        v = Iota(int(simp(a[0])))
        return v
    raise Unab("iota form")


class Iota:
    """unbounded iota(n): only usable zipped with a bounded range"""

    def __init__(self, lo):
        self.lo = lo
        self.ints = True

    def show(self):
        return "iota(%d...)" % self.lo


def _zip(M, *rs):
    n = min(len(r.items) for r in rs if isinstance(r, Vec)) if any(isinstance(r, Vec) for r in rs) else None
    if n is None:
        raise Unab("zip of unbounded ranges")
    out = []
    for i in range(n):
        row = []
        for r in rs:
            if isinstance(r, Vec):
                row.append(ItemRef(r.items, i, "%s[%d]" % (r.name, i)))
            elif isinstance(r, Iota):
                c = Cell(Fraction(r.lo + i))
                c.is_int = True
                row.append(c)
            else:
                raise Unab("zip of %s" % show_val(r))
        out.append(Tup(row))
    return Vec(out, "zip")


def _reverse(M, r):
    if isinstance(r, Vec):
        v = Vec(list(reversed(r.items)), r.name + "|reverse")
        v.ints = getattr(r, "ints", False)
        return v
    raise Unab("reverse of %s" % show_val(r))


def _take(M, r, n):
    if isinstance(r, Vec):
        return Vec(r.items[:int(simp(n))], r.name)
    if isinstance(r, Iota):
        return _iota(M, Fraction(r.lo), Fraction(r.lo + int(simp(n))))
    raise Unab("take")


def _drop(M, r, n):
    if isinstance(r, Vec):
        v = Vec(r.items[int(simp(n)):], r.name)
        return v
    if isinstance(r, Iota):
        return Iota(r.lo + int(simp(n)))
    raise Unab("drop")


def _transform(M, r, f):
    if isinstance(r, Vec):
        return Vec([M.copyval(M.apply(f, [ItemRef(r.items, i)], None, None)) for i in range(len(r.items))], r.name + "|transform")
    raise Unab("transform of %s" % show_val(r))


def _transform_any(M, *a):
    """std::views::transform(f) (adaptor), std::views::transform(r, f), std::transform(first, last, out, f) / std::ranges::transform(r, out, f)"""
    if len(a) == 1:
        f = a[0]
        return RangeAdaptor("transform", lambda M_, r: _transform(M_, r, f))
    if len(a) == 2:
        return _transform(M, a[0], a[1])
    if len(a) == 4 and all(isinstance(x, It) for x in a[:3]):
        first, last, out, f = a
        if first.v is not last.v:
            raise Unab("std::transform over iterators of different containers")
        res = [M.copyval(M.apply(f, [ItemRef(first.v.items, i)], None, None)) for i in range(first.i, last.i)]
        if out.i + len(res) > len(out.v.items):
            raise AbstractViolation("std::transform writes %d elements at position %d of %s (size %d)" % (len(res), out.i, out.v.name, len(out.v.items)))
        for k, r in enumerate(res):
            out.v.items[out.i + k] = r
        return It(out.v, out.i + len(res))
    if len(a) == 3 and isinstance(a[0], Vec) and isinstance(a[1], It):
        r, out, f = a
        res = [M.copyval(M.apply(f, [ItemRef(r.items, i)], None, None)) for i in range(len(r.items))]
        if out.i + len(res) > len(out.v.items):
            raise AbstractViolation("std::ranges::transform writes past the end of %s" % out.v.name)
        for k, x in enumerate(res):
            out.v.items[out.i + k] = x
        return It(out.v, out.i + len(res))
    raise Unab("transform with %d arguments" % len(a))


def _make_pair(M, *a):
    return Tup([Cell(M.copyval(x)) for x in a])


def _get(M, args, env, name):
    m = re.search(r"get<(\w+)>", name or "")
    v = M.eval(args[0], env)
    if m and isinstance(v, (Tup, Vec)):
        k = m.group(1)
        i = int(k) if k.isdigit() else int(simp(M.eval(("ref", k, None), env)))
        if not (0 <= i < len(v.items)):
            raise AbstractViolation("std::get<%d> of a tuple of %d elements" % (i, len(v.items)))
        return v.items[i] if isinstance(v, Tup) else ItemRef(v.items, i)
    raise Unab("std::get form %s" % name)


def _sort(M, *a):
    if len(a) >= 2 and isinstance(a[0], It) and isinstance(a[1], It):
        v = a[0].v
        seg = v.items[a[0].i:a[1].i]
        try:
            seg.sort(key=lambda x: simp(x))
        except TypeError:
            raise Unab("sort of non-constant values")
        v.items[a[0].i:a[1].i] = seg
        return None
    if len(a) >= 1 and isinstance(a[0], Vec):
        a[0].items.sort(key=lambda x: simp(x))
        return None
    raise Unab("sort form")


def _all_of(M, *a):
    rng, f = (a[0], a[1]) if isinstance(a[0], Vec) else (Vec(a[0].v.items[a[0].i:a[1].i]), a[2])
    return all(M.truth(M.apply(f, [Cell(x)], None, None)) for x in rng.items)


def _any_of(M, *a):
    rng, f = (a[0], a[1]) if isinstance(a[0], Vec) else (Vec(a[0].v.items[a[0].i:a[1].i]), a[2])
    return any(M.truth(M.apply(f, [Cell(x)], None, None)) for x in rng.items)


def _accumulate(M, first, last, init, f=None):
    acc = init
    for x in first.v.items[first.i:last.i]:
        acc = M.rv(M.apply(f, [Cell(acc), Cell(x)], None, None)) if f is not None else M.arith("+", acc, x)
    return acc


def _swap(M, args, env, name):
    a, b = M.lval(args[0], env), M.lval(args[1], env)
    va, vb = a.get(), b.get()
    a.set(vb)
    b.set(va)


BUILTINS = {
    "min": _pure(_minmax("min")), "max": _pure(_minmax("max")), "clamp": _pure(_clamp), "abs": _pure(_abs), "fabs": _pure(_abs),
    "sqrt": _pure(_sqrt), "pow": _pure(_pow), "floor": _pure(_floor), "ceil": _pure(_ceil),
    "static_cast": PyFunc(_cast, lazy=True), "move": PyFunc(_ident_ref, lazy=True), "forward": PyFunc(_ident_ref, lazy=True),
    "as_const": PyFunc(_ident_ref, lazy=True), "ref": PyFunc(_ident_ref, lazy=True), "cref": PyFunc(_ident_ref, lazy=True),
    "size": _pure(_size), "ssize": _pure(_size), "distance": _pure(_distance), "next": _pure(_next), "prev": _pure(_prev),
    "iota": _pure(_iota), "zip": _pure(_zip), "make_pair": _pure(_make_pair), "make_tuple": _pure(_make_pair), "tie": _pure(_make_pair),
    "get": PyFunc(_get, lazy=True),
    "sort": _pure(_sort), "all_of": _pure(_all_of), "any_of": _pure(_any_of), "accumulate": _pure(_accumulate), "swap": PyFunc(_swap, lazy=True),
    "begin": _pure(lambda M, v: v.m_begin(M, [], None)), "end": _pure(lambda M, v: v.m_end(M, [], None)),
    "cbegin": _pure(lambda M, v: v.m_begin(M, [], None)), "cend": _pure(lambda M, v: v.m_end(M, [], None)),
    "name:reverse": PyFunc(lambda M, n, env, name=None: RangeAdaptor("reverse", _reverse), lazy=True),
    "take": _pure(lambda M, n: RangeAdaptor("take", lambda M_, r: _take(M_, r, n))),
    "transform": _pure(lambda M, *a: _transform_any(M, *a)),
    "drop": _pure(lambda M, n: RangeAdaptor("drop", lambda M_, r: _drop(M_, r, n))),
}


def run_paths(scenario, max_paths=64):
    """scenario(decisions) -> result; explores both outcomes of every undecided symbolic comparison.
    returns list of (decisions shown, result)"""
    out = []
    pending = [({}, {})]
    while pending:
        dec, shown = pending.pop()
        try:
            res = scenario(dict(dec))
            out.append((dict(shown), res))
        except NeedDecision as nd:
            for b in (True, False):
                d2 = dict(dec)
                d2[nd.key] = b
                s2 = dict(shown)
                s2[nd.show] = b
                pending.append((d2, s2))
        if len(out) + len(pending) > max_paths:
            raise Unab("too many symbolic paths")
    return out
