"""C17 relations between groups, decided with the P (polynomial) and R (ray series) engines.

E1  SE_K_3<1> coincides with SE3 operation for operation: composition, inverse, matrix, Ad, hat, ad give coefficient-wise identical
    polynomials of the same input coefficients (P); exp, log(exp), dr_exp, dr_expinv give identical power series along rays (R).
E2  SE_K_3<2> is the zero-time subgroup of Galilei: composition / inverse of Galilei elements with t = 0 built from SE_K_3<2>
    coefficients (v -> r3<0>, p -> r3<1>) give t = 0 and the SE_K_3<2> result (P).
E3  rot_x/rot_y/rot_z(t) = exp(t e_i) as power series in t (R).
E4  lift_so3 / lift_se3 are homomorphisms inverted by project_so2 / project_se2, as power series along rays through the identity (R).
"""
import algebra
import fe
import groups
import ir
import irw
import poly
import rays
import raychk
from jet import Series
from report import Finding


def p_witnesses():
    W = irw.IRW("c17e_p", groups.PRELUDE, chunk=3)
    gs = groups.by_key(groups.catalogue("thorough"))
    se3, se23 = gs["SE3d"], gs["SE_2_3d"]
    A3 = "  smooth::Map<const smooth::SE3d> a0(p0), a1(p1);\n  smooth::Map<const smooth::SE_K_3<double, 1>> b0(p0), b1(p1);\n"
    T3 = "  Eigen::Map<const Eigen::Matrix<double, 6, 1>> t0(p0);\n"
    om = lambda n, r, c: "  Eigen::Map<Eigen::Matrix<double, %d, %d>> %s(o%s);\n" % (r, c, n, n[-1])
    sig = "const double* p0, const double* p1, double* o1, double* o2"

    def add(name, body, g, roles, shape, what):
        W.add("c17e_" + name, sig, body, g=g, roles=roles, shape=shape, prop="C17", what=what, name=name, zero=False, ident=False)
    add("k1_comp", A3 + om("m1", 7, 1) + om("m2", 7, 1) + "  m1 = (a0 * a1).coeffs();\n  m2 = (b0 * b1).coeffs();\n", se3, ["rep", "rep"], 7, "SE_K_3<1> composition == SE3 composition")
    add("k1_inv", A3 + om("m1", 7, 1) + om("m2", 7, 1) + "  m1 = a0.inverse().coeffs();\n  m2 = b0.inverse().coeffs();\n", se3, ["rep", None], 7, "SE_K_3<1> inverse == SE3 inverse")
    add("k1_mat", A3 + om("m1", 4, 4) + om("m2", 4, 4) + "  m1 = a0.matrix();\n  m2 = b0.matrix();\n", se3, ["rep", None], 16, "SE_K_3<1> matrix == SE3 matrix")
    add("k1_Ad", A3 + om("m1", 6, 6) + om("m2", 6, 6) + "  m1 = a0.Ad();\n  m2 = b0.Ad();\n", se3, ["rep", None], 36, "SE_K_3<1> Ad == SE3 Ad")
    add("k1_hat", T3 + om("m1", 4, 4) + om("m2", 4, 4) + "  m1 = smooth::SE3d::hat(t0);\n  m2 = smooth::SE_K_3<double, 1>::hat(t0);\n", se3, ["tan", None], 16, "SE_K_3<1> hat == SE3 hat")
    add("k1_ad", T3 + om("m1", 6, 6) + om("m2", 6, 6) + "  m1 = smooth::SE3d::ad(t0);\n  m2 = smooth::SE_K_3<double, 1>::ad(t0);\n", se3, ["tan", None], 36, "SE_K_3<1> ad == SE3 ad")
    # Galilei zero-time subgroup: coefficients [v(3), p(3), t, q(4)] built from SE_K_3<2> coefficients [v(3), p(3), q(4)]
    GAL = ("  smooth::Map<const smooth::SE_K_3<double, 2>> k0(p0), k1(p1);\n  double ga[11], gb[11];\n"
           "  for (int i = 0; i < 6; ++i) { ga[i] = p0[i]; gb[i] = p1[i]; }\n  ga[6] = 0; gb[6] = 0;\n"
           "  for (int i = 0; i < 4; ++i) { ga[7 + i] = p0[6 + i]; gb[7 + i] = p1[6 + i]; }\n"
           "  smooth::Map<const smooth::Galileid> g0(ga), g1(gb);\n")
    PACK = ("  m1.template head<6>() = r.coeffs().template head<6>();\n  m1(6) = r.coeffs()(6);\n  m1.template tail<4>() = r.coeffs().template tail<4>();\n"
            "  m2.template head<6>() = s.coeffs().template head<6>();\n  m2(6) = 0;\n  m2.template tail<4>() = s.coeffs().template tail<4>();\n")
    add("gal_comp", GAL + om("m1", 11, 1) + om("m2", 11, 1) + "  const smooth::Galileid r = g0 * g1;\n  const smooth::SE_K_3<double, 2> s = k0 * k1;\n" + PACK,
        se23, ["rep", "rep"], 11, "Galilei composition at t = 0 == SE_K_3<2> composition (and stays at t = 0)")
    add("gal_inv", GAL + om("m1", 11, 1) + om("m2", 11, 1) + "  const smooth::Galileid r = g0.inverse();\n  const smooth::SE_K_3<double, 2> s = k0.inverse();\n" + PACK,
        se23, ["rep", None], 11, "Galilei inverse at t = 0 == SE_K_3<2> inverse (and stays at t = 0)")
    return W


def r_witnesses():
    W = irw.IRW("c17e_r", groups.PRELUDE, chunk=2)
    sig = "const double* p0, double* o1, double* o2"
    om = lambda n, r, c: "  Eigen::Map<Eigen::Matrix<double, %d, %d>> %s(o%s);\n" % (r, c, n, n[-1])
    T6 = "  Eigen::Map<const Eigen::Matrix<double, 6, 1>> a(p0);\n  using A_ = smooth::SE3d;\n  using B_ = smooth::SE_K_3<double, 1>;\n"
    gs = groups.by_key(groups.catalogue("thorough"))
    se3 = gs["SE3d"]
    dir6 = raychk.direction(se3, 0)
    W.add("c17r_k1_exp", sig, T6 + om("m1", 7, 1) + om("m2", 7, 1) + "  m1 = A_::exp(a).coeffs();\n  m2 = B_::exp(a).coeffs();\n", shape=(7, 1), dirs=dir6, what="SE_K_3<1> exp == SE3 exp", rule="E1")
    W.add("c17r_k1_log", sig, T6 + om("m1", 6, 1) + om("m2", 6, 1) + "  m1 = A_::exp(a).log();\n  m2 = B_::exp(a).log();\n", shape=(6, 1), dirs=dir6, what="SE_K_3<1> log == SE3 log", rule="E1")
    W.add("c17r_k1_drexp", sig, T6 + om("m1", 6, 6) + om("m2", 6, 6) + "  m1 = A_::dr_exp(a);\n  m2 = B_::dr_exp(a);\n", shape=(6, 6), dirs=dir6, what="SE_K_3<1> dr_exp == SE3 dr_exp", rule="E1")
    W.add("c17r_k1_drinv", sig, T6 + om("m1", 6, 6) + om("m2", 6, 6) + "  m1 = A_::dr_expinv(a);\n  m2 = B_::dr_expinv(a);\n", shape=(6, 6), dirs=dir6, what="SE_K_3<1> dr_expinv == SE3 dr_expinv", rule="E1")
    from fractions import Fraction as F
    for ax, nm in enumerate("xyz"):
        W.add("c17r_rot_%s" % nm, sig, om("m1", 4, 1) + om("m2", 4, 1)
              + "  m1 = smooth::SO3d::rot_%s(p0[0]).coeffs();\n  m2 = smooth::SO3d::exp(p0[0] * Eigen::Vector3d::Unit(%d)).coeffs();\n" % (nm, ax),
              shape=(4, 1), dirs=[F(3, 4)], what="rot_%s(t) == exp(t e_%s)" % (nm, nm), rule="E3")
    # lift / project along rays through the identity: SO2 angles t*a, t*b; SE2 tangents
    S2 = "  const smooth::SO2d g1 = smooth::SO2d::exp(Eigen::Matrix<double, 1, 1>(p0[0])), g2 = smooth::SO2d::exp(Eigen::Matrix<double, 1, 1>(p0[1]));\n"
    W.add("c17r_lift_so3_hom", sig, S2 + om("m1", 4, 1) + om("m2", 4, 1) + "  m1 = (g1 * g2).lift_so3().coeffs();\n  m2 = (g1.lift_so3() * g2.lift_so3()).coeffs();\n",
          shape=(4, 1), dirs=[F(3, 4), F(-2, 5)], what="lift_so3(g1 g2) == lift_so3(g1) lift_so3(g2)", rule="E4")
    W.add("c17r_proj_lift_so2", sig, S2 + om("m1", 2, 1) + om("m2", 2, 1) + "  m1 = g1.lift_so3().project_so2().coeffs();\n  m2 = g1.coeffs();\n",
          shape=(2, 1), dirs=[F(3, 4), F(-2, 5)], what="project_so2(lift_so3(g)) == g", rule="E4")
    E2 = ("  const smooth::SE2d g1 = smooth::SE2d::exp(Eigen::Map<const Eigen::Vector3d>(p0)), g2 = smooth::SE2d::exp(Eigen::Map<const Eigen::Vector3d>(p0 + 3));\n")
    d6 = [F(3, 4), F(-2, 5), F(5, 7), F(-1, 3), F(7, 9), F(2, 3)]
    W.add("c17r_lift_se3_hom", sig, E2 + om("m1", 7, 1) + om("m2", 7, 1) + "  m1 = (g1 * g2).lift_se3().coeffs();\n  m2 = (g1.lift_se3() * g2.lift_se3()).coeffs();\n",
          shape=(7, 1), dirs=d6, what="lift_se3(g1 g2) == lift_se3(g1) lift_se3(g2)", rule="E4")
    W.add("c17r_proj_lift_se2", sig, E2 + om("m1", 4, 1) + om("m2", 4, 1) + "  m1 = g1.lift_se3().project_se2().coeffs();\n  m2 = g1.coeffs();\n",
          shape=(4, 1), dirs=d6, what="project_se2(lift_se3(g)) == g", rule="E4")
    return W


def run(rep, tier):
    algebra.check_identities(rep, tier, "C17", W=p_witnesses(), rule="E.P", minimum=8,
                             desc="SE_K_3<1> == SE3 and Galilei|t=0 == SE_K_3<2>, coefficient-wise as exact polynomial identities on every path")
    rep.rule("E.R", "SE_K_3<1> == SE3 for exp/log/dr_exp/dr_expinv, rot_i(t) == exp(t e_i), lift/project relations: identical power series along rational rays (order 8)", minimum=11)
    W = r_witnesses()
    facts = W.build()
    rep.unit("%d relation witnesses in the series domain" % len(W.wits))
    for fname, (ff, meta, mod) in sorted(facts.items()):
        dirs = meta["dirs"]
        inputs = {"a%d" % i: Series({1: dirs[i]}, rays.N_IN) for i in range(len(dirs))}

        def cell_var(p, off, ty):
            return "a%d" % (off // 8) if p == 0 else None
        r, c = meta["shape"]
        try:
            paths, tstar = rays.evaluate(ff, cell_var, inputs, max_paths=256)
            results = []
            for path in paths:
                M1 = rays.mat_from(path["stores"], 1, r, c)
                M2 = rays.mat_from(path["stores"], 2, r, c)
                mm, known = rays.first_mismatch(M1, M2, 8)
                results.append((mm, known, path))
        except poly.Narrowing as ex:
            rep.instance("E.R", fname, meta["what"], ok=False, sample={})
            rep.violation(Finding("E.R", fname, meta["what"], "a value is narrowed to single precision: %s" % ex, None, None))
            continue
        except (poly.Unsupported, ir.Unresolved) as ex:
            rep.broke("%s: cannot abstract into the series domain: %s" % (fname, ex))
            continue
        full = [x for x in results if x[0] is None and x[1] >= 6]
        low = [x for x in results if x[0] is not None and (tstar == 0.0 or abs(float(x[0][3] - x[0][4])) * tstar ** x[0][2] > 1e-9)]
        ok = bool(full) and not low
        rep.instance("E.R", fname, meta["what"], ok=ok, sample={"paths": len(results), "rule": meta["rule"], "direction": [str(x) for x in dirs]})
        if not ok:
            mm, known, path = low[0] if low else max(results, key=lambda x: (x[0][2] if x[0] else -1))
            msg = "entry (%d,%d): coefficient of t^%d is %s on the left, %s on the right" % (mm[0], mm[1], mm[2], mm[3], mm[4]) if mm else "no path known to order 8"
            rep.violation(Finding("E.R", fname, meta["what"], "%s fails as a power-series identity along t*(%s): %s" % (meta["what"], ", ".join(str(x) for x in dirs), msg),
                                  None, None, detail={"witness": fname}))
