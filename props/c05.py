import layers
import raychk
import switches


def check(rep, tier, replay=None):
    switches.run(rep, "C05")
    layers.run(rep, 2)
    rep.explanations.append(
        "Rule T (engine R, lib/rays.py): the tangent input is abstracted as a = t*a0 along rational rays; the optimized IR of the witness is "
        "interpreted in the domain of truncated power series in t over exact rationals, and the closed-form path must reproduce the "
        "defining series coefficient by coefficient to order 8 (d2r_exp(a) contracted with a second rational direction b = d/ds of the dr_exp series at a + s b; d2r_expinv likewise through -J^-1 dJ J^-1); polynomial branches of small-angle switches may differ only "
        "by terms below the tolerance at the largest t that selects them.  A mismatch is a definite violation; agreement along the rays "
        "examined is a necessary condition of the identity for all a (not a proof).  Rounding is not modelled.")
    raychk.run(rep, tier, "C05", ["d2rexp", "d2rinv"], 1e-5)
