"""RND -- first-order rounding-error abstract interpretation of the optimized IR (shared by C02, C04, C05, C15).

The IR of an API-level witness (the same witnesses as rule T) is interpreted in the domain (value, absolute error bound): every floating-point
operation and every libm call adds the unit roundoff u relative to its result and propagates the bounds of its operands by the first-order
formulas (|a| e_b + |b| e_a for a product, e / |f'| ... for the elementary functions); comparisons are decided on the values.  The inputs are exact.
The tangent runs along a ray a = theta * w (unit rotation axis w; translation-like coordinates fixed at a few hundred) over a grid of angles: log-spaced
from 1e-9 to 3, just above and just below every threshold constant the function compares against (the small-angle switches, read from the IR itself),
and pi - 10^-k towards the half turn.

For every output matrix the bound is taken relative to its largest entry and compared with the property's tolerance; because a first-order bound is
pessimistic (typically 5-30x) only >= 100x the tolerance is reported, a smaller excess is a note.  This is a statement about the *conditioning of the
formulas actually compiled*, independent of how the source spells them: a closed form that cancels catastrophically just above its switch, towards
the half turn, or anywhere on the grid is reported with the angle and the operation chain's predicted error; nothing is measured or executed."""
import math
import re

import fe
import groups
import ir
import poly
import raychk
from report import Finding


INF = float("inf")


class NE:
    """(value, absolute error bound) with unit roundoff U"""
    __slots__ = ("v", "e")
    U = 2.0 ** -53

    def __init__(self, v, e=0.0):
        self.v = float(v)
        e = float(e)
        self.e = INF if e != e else e

    def _r(self, r, e):
        e = e + NE.U * abs(r)
        return NE(r, INF if e != e else e)

    def __add__(self, o):
        return self._r(self.v + o.v, self.e + o.e)

    def __sub__(self, o):
        return self._r(self.v - o.v, self.e + o.e)

    def __neg__(self):
        return NE(-self.v, self.e)

    def __mul__(self, o):
        return self._r(self.v * o.v, abs(self.v) * o.e + abs(o.v) * self.e)

    def __truediv__(self, o):
        if o.v == 0:
            # the value track is the double evaluation at this very input: the compiled code divides by exactly zero here (inf / nan at run time).
            # (A denominator whose error interval merely contains zero keeps the finite first-order bound: numerator and denominator errors are
            # correlated in practice and the model would over-report -- confirmed against SE3f log towards the half turn.)
            return NE(0.0, INF)
        return self._r(self.v / o.v, self.e / abs(o.v) + abs(self.v) * o.e / (o.v * o.v))


def _fn(name, args):
    u = NE.U
    x = args[0]
    if name in ("sin", "cos"):
        r = math.sin(x.v) if name == "sin" else math.cos(x.v)
        d = abs(math.cos(x.v)) if name == "sin" else abs(math.sin(x.v))
        return NE(r, d * x.e + u * max(abs(r), u))
    if name == "tan":
        r = math.tan(x.v)
        return NE(r, (1 + r * r) * x.e + u * abs(r))
    if name == "sqrt":
        if x.v < 0:
            if x.v > -x.e - 1e-300:
                return NE(0.0, math.sqrt(x.e))
            raise poly.Unsupported("sqrt of a negative value")
        r = math.sqrt(x.v)
        return NE(r, (0.5 * x.e / r if r > 0 else math.sqrt(x.e)) + u * r)
    if name == "fabs":
        return NE(abs(x.v), x.e)
    if name == "atan2":
        y, xx = args[0], args[1]
        d2 = max(xx.v * xx.v + y.v * y.v, 1e-300)
        r = math.atan2(y.v, xx.v)
        return NE(r, (abs(xx.v) * y.e + abs(y.v) * xx.e) / d2 + u * abs(r))
    if name == "atan":
        r = math.atan(x.v)
        return NE(r, x.e / (1 + x.v * x.v) + u * abs(r))
    if name in ("acos", "asin"):
        if abs(x.v) > 1:
            if abs(x.v) <= 1 + x.e + 1e-15:
                x = NE(max(-1.0, min(1.0, x.v)), x.e)
            else:
                raise poly.Unsupported("%s outside [-1, 1]" % name)
        r = math.acos(x.v) if name == "acos" else math.asin(x.v)
        s = math.sqrt(max(1 - x.v * x.v, 0.0))
        # near |x| = 1 the derivative blows up: the first-order term is replaced by the exact worst case over the error interval
        if s < 1e-3:
            lo, hi = max(-1.0, x.v - x.e), min(1.0, x.v + x.e)
            f = math.acos if name == "acos" else math.asin
            spread = max(abs(f(lo) - r), abs(f(hi) - r))
            return NE(r, spread + u * abs(r))
        return NE(r, x.e / s + u * abs(r))
    if name == "exp":
        r = math.exp(x.v)
        return NE(r, r * x.e + u * r)
    if name == "log":
        r = math.log(x.v)
        return NE(r, x.e / abs(x.v) + u * abs(r))
    if name == "copysign":
        return NE(math.copysign(x.v, args[1].v), x.e)
    if name in ("fmin", "minnum"):
        return x if x.v <= args[1].v else args[1]
    if name in ("fmax", "maxnum"):
        return x if x.v >= args[1].v else args[1]
    raise poly.Unsupported("call of %s (outside the rounding domain)" % name)


class RndEval(poly.PathEval):
    PURE_CALLS = ("sin", "cos", "tan", "sqrt", "atan2", "atan", "acos", "asin", "exp", "log", "llvm.sqrt", "llvm.fabs", "llvm.copysign", "llvm.minnum", "llvm.maxnum",
                  "fmin", "fmax", "sinf", "cosf", "sqrtf", "llvm.sin", "llvm.cos")

    def __init__(self, ff, cell_var, inputs):
        super().__init__(ff, cell_var, None, 4)
        self.inputs = inputs
        self.sig = []
        self.calls = []

    def dom_const(self, c):
        return NE(float(c), 0.0)

    def dom_input(self, vn):
        if vn not in self.inputs:
            raise poly.Unsupported("input cell %s has no value" % vn)
        return NE(self.inputs[vn], 0.0)

    def dom_check(self, r):
        pass

    def dom_cmp(self, pred, a, b):
        r = self._cmp(pred, a, b)
        self.sig.append(r)
        return r

    @staticmethod
    def _cmp(pred, a, b):
        x, y = a.v, b.v
        if x != x or y != y:
            return pred in ("ne", "no")
        return {"eq": x == y, "ne": x != y, "lt": x < y, "le": x <= y, "gt": x > y, "ge": x >= y, "rd": True, "no": False}[pred]

    def dom_key(self, x, y):
        return None

    def dom_call(self, name, args):
        base = name.split(".f64")[0].split(".f32")[0]
        base = base[5:] if base.startswith("llvm.") else base
        base = base[:-1] if base in ("sinf", "cosf", "sqrtf") else base
        self.calls.append(base)
        return _fn(base, args)

    def dom_indeterminate(self, why):
        raise poly.Unsupported("indeterminate value (%s)" % why)


def thresholds(ff):
    """constants the function compares against (small-angle switch thresholds), read from the fcmp instructions"""
    out = set()
    for blk in ff.f.blocks.values():
        for ins in blk:
            if ins.op == "fcmp":
                for tok in re.findall(r"(?:double|float) (\S+?), (\S+)$", ins.text.strip()):
                    for t in tok:
                        c = ir.parse_const(t)
                        if c is not None and 0 < abs(c) <= 4 and c == c:
                            out.add(abs(float(c)))
    return sorted(out)


def ray(g, theta, variant=0, _state=None):
    """tangent at rotation angle theta: unit rotation axes, translation-like coordinates a few hundred, the rest O(1)"""
    st = _state if _state is not None else {"rot": variant, "gen": variant}
    if g.members:
        out = []
        for m in g.members:
            out += ray(m, theta, variant, st)
        return out
    base = g.key[:-1]
    trans = [310.0, -220.0, 140.0, -90.0, 260.0, -170.0, 120.0, 75.0, -330.0]
    gen = [0.75, -0.4, 0.71, -0.33, 0.78, 0.67]
    out = []
    for i in range(g.dof):
        if i in raychk.TRANSLATION.get(base, ()) or base.startswith("V"):
            out.append(trans[st["gen"] % len(trans)])
        else:
            out.append(gen[st["gen"] % len(gen)] * theta)
        st["gen"] += 1
    if base in raychk.TAN_ROT3:
        w = raychk.ROT3[st["rot"] % len(raychk.ROT3)]
        st["rot"] += 1
        o = raychk.TAN_ROT3[base]
        out[o:o + 3] = [float(x) * theta for x in w]
    elif base == "SE2":
        out[2] = theta
    elif base == "SO2":
        out[0] = theta
    elif base == "C1":
        out[0] = theta
    return out


def grid(ths, max_angle=None):
    """max_angle: the property's domain ends there (e.g. pi - 1e-3 for the inverse Jacobians)"""
    pts = set()
    for k in range(-9, 1):
        for m in (1.0, 2.2, 4.6):
            pts.add(m * 10.0 ** k)
    for c in ths:
        for base in (c, math.sqrt(c)):
            for f in (1 - 1e-3, 1 + 1e-6, 1 + 1e-3, 1.5):
                pts.add(base * f)
    for k in range(1, 9):
        pts.add(math.pi - 10.0 ** -k)
    return sorted(p for p in pts if 0 < p < math.pi and (max_angle is None or p <= max_angle))


def evaluate(ff, g, theta, hess, shapes, variant=0):
    """(comparison signature, output cells) of the witness at rotation angle theta"""
    a0 = ray(g, theta, variant)
    inputs = {"a%d" % i: a0[i] for i in range(g.dof)}
    if hess:
        inputs.update({"b%d" % i: 0.0 for i in range(g.dof)})

    def cell_var(p, off, ty):
        if p == 0:
            return "a%d" % (off // 8)
        if p == 1 and hess:
            return "b%d" % (off // 8)
        return None
    ev = RndEval(ff, cell_var, inputs)
    orig = ev._run_path

    def run_path(dec):
        ev._dec_proxy = dec
        ev.sig = []
        return orig(dec)
    ev._run_path = run_path
    paths = ev.run()
    st = paths[0]["stores"]
    out_param = 2 if hess else 1
    r1, c1 = shapes[0]
    cells = [st.get((out_param, 8 * k)) for k in range(r1 * c1)]
    if any(c is None for c in cells):
        return tuple(ev.sig), None
    return tuple(ev.sig), cells


def continuity(rep, rule, fname, ff, g, nm, hess, shapes, ths, tol, max_angle, near_pi, variant=0, dense=48):
    """RND.C: wherever the sequence of comparison outcomes changes along the ray (a small-angle switch, a guard towards the half turn, any case split), the
    outputs on the two sides of the flip -- located by bisection to adjacent angles -- agree within 2x the tolerance plus the two rounding bounds"""
    NE.U = 2.0 ** -53
    pts = set(grid(ths, max_angle))
    top = max_angle or math.pi
    pts.update(top * (i + 0.5) / dense for i in range(dense))
    pts = sorted(pts)
    prev = None
    flips = []
    for th in pts:
        sig, cells = evaluate(ff, g, th, hess, shapes, variant)
        if cells is None:
            raise poly.Unsupported("output cell not written")
        if prev is not None and prev[1] != sig:
            lo, hi, slo = prev[0], th, prev[1]
            clo, chi = prev[2], cells
            for _ in range(70):
                mid = 0.5 * (lo + hi)
                if mid <= lo or mid >= hi:
                    break
                sm, cm = evaluate(ff, g, mid, hess, shapes, variant)
                if cm is None:
                    raise poly.Unsupported("output cell not written")
                if sm == slo:
                    lo, clo = mid, cm
                else:
                    hi, chi = mid, cm
            flips.append((lo, hi, clo, chi))
        prev = (th, sig, cells)
    out = []
    for lo, hi, clo, chi in flips:
        tl = tol
        if nm in near_pi and math.pi - lo < near_pi[nm][0]:
            tl = near_pi[nm][1]
        scale = max(max(abs(c.v) for c in clo), 1.0)
        worst = None
        for k, (a, b) in enumerate(zip(clo, chi)):
            if a.e == INF or b.e == INF:
                continue        # reported by the bound itself
            d = abs(a.v - b.v)
            d = INF if d != d else d
            excess = (d - a.e - b.e) / scale
            if worst is None or excess > worst[0]:
                worst = (excess, k, a.v, b.v)
        out.append((lo, hi, worst, tl))
    return out


def run(rep, tier, prop, names, tol, float_tol=None, rule="RND", max_angle=None, near_pi=None):
    """max_angle: {witness name: largest rotation angle of the property's domain}; near_pi: {witness name: (width_double, tol_double, width_float, tol_float)} --
    a relaxed tolerance within `width` of the half turn (C02's log round trip)"""
    max_angle = max_angle or {}
    near_pi = near_pi or {}
    gs = [g for g in groups.catalogue("quick")]
    variants, dense = [0], 48
    if tier == "thorough":
        gs += [g for g in groups.catalogue("thorough") if g.key in ("SE_1_3d", "B_SE3d_SO2d_V3d_C1d", "B_nested")]
        variants, dense = [0, 1, 2], 192
    rep.rule(rule, "first-order rounding bound of the compiled formulas along rays (grid of angles incl. both sides of every switch and pi - 10^-k) stays below 100x the "
             "tolerance %g%s relative to the largest entry of each output" % (tol, (" (float: %g)" % float_tol) if float_tol else ""), minimum=len(names) * 4)
    W = raychk.witnesses(gs, names)
    facts = W.build()
    rep.unit("%d ray witnesses (shared with rule T)" % len(W.wits))
    crule = rule + ".C"
    rep.rule(crule, "every change of the comparison outcomes along the ray (small-angle switch, guard towards the half turn, any case split) is continuous: the outputs at the two "
             "adjacent angles around the flip agree within 2x the tolerance plus their rounding bounds", minimum=len(names) * 2)
    for fname, (ff, meta, mod) in sorted(facts.items()):
        g, nm = meta["g"], meta["name"]
        hess = nm in ("d2rexp", "d2rinv")
        ths = thresholds(ff)
        shapes = meta["shape"]
        r1 = shapes[0][0]
        for variant in variants:
            vtag = "" if variant == 0 else " ray %d" % variant
            _run_one(rep, rule, crule, fname, ff, g, nm, hess, shapes, ths, tol, float_tol, max_angle, near_pi, variant, vtag, dense, r1)
    NE.U = 2.0 ** -53


def _run_one(rep, rule, crule, fname, ff, g, nm, hess, shapes, ths, tol, float_tol, max_angle, near_pi, variant, vtag, dense, r1):
    if True:
        try:
            flips = continuity(rep, crule, fname, ff, g, nm, hess, shapes, ths, tol, max_angle.get(nm), near_pi, variant, dense)
        except (poly.Unsupported, ir.Unresolved) as ex:
            rep.broke("%s: %s: %s" % (crule, fname, ex))
            flips = []
        if not flips:
            rep.instance(crule, g.ctype, "%s%s: no case split along the ray" % (nm, vtag), ok=True, nontrivial=False, sample={"witness": fname})
        for lo, hi, worst, tl_c in flips:
            inst = "%s%s flip at %.6g" % (nm, vtag, lo)
            ok = worst is None or worst[0] <= 2 * tl_c
            rep.instance(crule, g.ctype, inst, ok=ok, sample={"witness": fname, "angle_below": lo, "angle_above": hi, "jump_beyond_rounding_rel": worst[0] if worst else 0.0, "tolerance": tl_c})
            if not ok:
                ex_, k, va, vb = worst
                rep.violation(Finding(crule, g.ctype, inst,
                                      "%s (%s): the compiled code takes a different branch on the two sides of rotation angle %.12g (pi - %.3g), and entry (%d, %d) jumps from %.12g to %.12g "
                                      "there: %.3g relative to the largest entry beyond what rounding explains, against 2 x tolerance %g -- the two branches of that case split do not compute "
                                      "the same function at the point where they meet" % (raychk.IDENT[nm][1].split("==")[0].strip(), g.ctype, lo, math.pi - lo, k % r1, k // r1, va, vb, ex_, tl_c),
                                      None, None, detail={"witness": fname}))
        for scalar, u, tl in (("double", 2.0 ** -53, tol), ("float", 2.0 ** -24, float_tol)):
            if tl is None:
                continue
            NE.U = u
            worst = (0.0, None, None, tl)
            broke = None
            worst_ratio = 0.0
            for theta in grid(ths, max_angle.get(nm)):
                if scalar == "float" and math.pi - theta < 1e-6:
                    continue          # not representable distinct from pi in single precision
                tl_here = tl
                if nm in near_pi:
                    wd, td, wf, tf = near_pi[nm]
                    if scalar == "double" and math.pi - theta < wd:
                        tl_here = td
                    if scalar == "float" and math.pi - theta < wf:
                        tl_here = tf
                try:
                    sig, cells = evaluate(ff, g, theta, hess, shapes, variant)
                except (poly.Unsupported, ir.Unresolved) as ex:
                    broke = "%s at theta = %.3g: %s" % (fname, theta, ex)
                    break
                if cells is None:
                    broke = "%s: output cell not written" % fname
                    break
                scale = max(max(abs(c.v) for c in cells), 1.0)       # relative to the largest entry, absolute below 1
                rel = max(c.e for c in cells) / scale
                if rel / tl_here > worst_ratio:
                    worst_ratio = rel / tl_here
                    k = max(range(len(cells)), key=lambda i: cells[i].e)
                    worst = (rel, theta, (k % r1, k // r1, cells[k].v, cells[k].e), tl_here)
            if broke:
                rep.broke("%s: %s" % (rule, broke))
                break
            inst = "%s %s%s" % (nm, scalar, vtag)
            tl = worst[3]
            sample = {"witness": fname, "worst_relative_bound": worst[0], "at_angle": worst[1], "tolerance": tl, "thresholds": ths[:6]}
            if worst[0] >= 100 * tl:
                rep.instance(rule, g.ctype, inst, ok=False, sample=sample)
                r_, c_, v_, e_ = worst[2]
                rep.violation(Finding(rule, g.ctype, inst,
                                      "%s (%s, %s): at rotation angle %.9g the compiled formula for entry (%d, %d) = %.3g has a first-order rounding bound of %.2g, i.e. %.2g relative to the "
                                      "largest entry, against the tolerance %g: the expression cancels catastrophically there (a switch threshold too small for its closed form, or a "
                                      "formula that is ill-conditioned towards the half turn; an infinite bound means a division by exactly zero at that input)" % (raychk.IDENT[nm][1].split("==")[0].strip(), g.ctype, scalar, worst[1], r_, c_, v_, e_, worst[0], tl),
                                      None, None, scalar=scalar, detail={"witness": fname}))
            else:
                rep.instance(rule, g.ctype, inst, ok=True, sample=sample)
                if worst[0] > tl:
                    rep.note("INCONCLUSIVE %s %s %s: rounding model predicts %.2g at angle %.6g (tolerance %g); the model is pessimistic, only >= 100x the tolerance is reported"
                             % (rule, g.ctype, inst, worst[0], worst[1], tl))
    NE.U = 2.0 ** -53


CONVERSIONS = [
    ("SO2::lift_so3", "smooth::SO2d g(p0[0]);\n  Eigen::Map<Eigen::Vector4d> m1(o1);\n  m1 = g.lift_so3().coeffs();", "principal"),
    ("SO3::rot_x", "Eigen::Map<Eigen::Vector4d> m1(o1);\n  m1 = smooth::SO3d::rot_x(p0[0]).coeffs();", "any"),
    ("SO3::rot_y", "Eigen::Map<Eigen::Vector4d> m1(o1);\n  m1 = smooth::SO3d::rot_y(p0[0]).coeffs();", "any"),
    ("SO3::rot_z", "Eigen::Map<Eigen::Vector4d> m1(o1);\n  m1 = smooth::SO3d::rot_z(p0[0]).coeffs();", "any"),
]


def run_conversions(rep, rule="R5", budget=1e-12):
    """angle -> quaternion conversions: the first-order rounding bound of every stored coefficient stays below `budget` (100x the 1e-14 single-operation budget; the model
    is pessimistic) over a grid of angles that includes both signs, pi -/+ 10^-k and, for the rot_* constructors, angles beyond a full turn"""
    import irw
    rep.rule(rule, "angle -> quaternion conversions: first-order rounding bound of every coefficient (optimized IR, rounding domain) stays below %g at every angle incl. pi - 10^-k" % budget,
             minimum=len(CONVERSIONS))
    W = irw.IRW("rnd_conv", groups.PRELUDE, chunk=4)
    for i, (what, body, dom) in enumerate(CONVERSIONS):
        W.add("conv_%d" % i, "const double* p0, double* o1", "  " + body, what=what, dom=dom)
    facts = W.build()
    rep.unit("%d conversion witnesses" % len(W.wits))
    NE.U = 2.0 ** -53
    base = grid([])
    for fname, (ff, meta, mod) in sorted(facts.items()):
        angles = set(base) | {-a for a in base}
        if meta["dom"] == "any":
            angles |= {math.pi + 10.0 ** -k for k in range(1, 9)} | {4.0, 6.0, 2 * math.pi - 1e-6, 2 * math.pi + 1e-6, -4.0, 9.5, 3 * math.pi - 1e-7}
        worst = (0.0, None, None)
        broke = None
        for th in sorted(angles):
            try:
                ev = RndEval(ff, lambda p, off, ty: "x" if p == 0 else None, {"x": th})
                orig = ev._run_path

                def run_path(dec, ev=ev, orig=orig):
                    ev._dec_proxy = dec
                    return orig(dec)
                ev._run_path = run_path
                st = ev.run()[0]["stores"]
            except (poly.Unsupported, ir.Unresolved) as ex:
                broke = "%s at angle %.6g: %s" % (meta["what"], th, ex)
                break
            cells = [st.get((1, 8 * k)) for k in range(4)]
            if any(c is None for c in cells):
                broke = "%s: coefficient not written" % meta["what"]
                break
            k = max(range(4), key=lambda i: cells[i].e)
            if cells[k].e > worst[0]:
                worst = (cells[k].e, th, k)
        if broke:
            rep.broke("%s: %s" % (rule, broke))
            continue
        ok = worst[0] < budget
        rep.instance(rule, meta["what"], "conditioning", ok=ok, sample={"witness": fname, "worst_coefficient_bound": worst[0], "at_angle": worst[1], "angles": len(angles)})
        if not ok:
            rep.violation(Finding(rule, meta["what"], "conditioning",
                                  "%s: at angle %.12g (pi - %.1e) the compiled expression for coefficient %d has a first-order rounding bound of %.2g (budget 1e-14 per operation, "
                                  "reported from %g): it is ill-conditioned there (e.g. a half-angle identity sqrt((1 +/- cos)/2) cancelling towards the half turn); an infinite bound "
                                  "is a division by exactly zero" % (meta["what"], worst[1], math.pi - abs(worst[1]), worst[2], worst[0], budget), None, None, detail={"witness": fname}))


def run_tails(rep, rule="TT", rel_tol=1e-9):
    """The Taylor-tail helpers of detail/trig.hpp (cos_n, sin_n: a transcendental function of the squared argument minus its leading Taylor terms), each as its own witness:
    TT.path  on the path taken for arguments beyond every comparison constant (x^2 = 4 .. 1e8) the value is computed through a libm sine / cosine -- a path without one is a
             polynomial or rational function of x^2 and cannot equal an oscillating function on an unbounded range ("any rotation norm");
    TT.rnd   first-order rounding bound relative to the value stays below 100x rel_tol over x^2 = 1e-30 .. 1e8 incl. both sides of every comparison constant;
    TT.cont  the value is continuous (2x rel_tol plus rounding) wherever the comparison outcomes change."""
    import astlib as A
    import irw
    rep.rule(rule + ".path", "Taylor tails of detail/trig.hpp: the path taken for large arguments goes through a libm sine / cosine", minimum=6)
    rep.rule(rule + ".rnd", "Taylor tails: first-order rounding bound relative to the value below 100x %g over x^2 = 1e-30 .. 1e8 incl. both sides of every switch" % rel_tol, minimum=6)
    rep.rule(rule + ".cont", "Taylor tails: continuous at every change of the comparison outcomes", minimum=6)
    names = set()
    for filt in ("cos_", "sin_"):
        for d in A.index(fe.ast_dump(filt)):
            if d.kind in A.FUNCS and d.file and d.file.endswith("detail/trig.hpp") and A.body(d.node) is not None and len(A.params(d.node)) == 1:
                names.add(d.qname.split("::")[-1].split("<")[0])
    names = sorted(names)
    if len(names) < 6:
        rep.broke("%s: %d tail functions found in detail/trig.hpp (6 confirmed by hand)" % (rule, len(names)))
    W = irw.IRW("rnd_tails", groups.PRELUDE + "#include <smooth/detail/trig.hpp>\n", chunk=8)
    for nm in names:
        W.add("tail_" + nm, "const double* p0, double* o1", "  o1[0] = smooth::detail::%s<double>(p0[0]);" % nm, what=nm)
    facts = W.build()
    rep.unit("%d tail witnesses" % len(W.wits))
    NE.U = 2.0 ** -53

    def ev_at(ff, x2):
        ev = RndEval(ff, lambda p, off, ty: "x" if p == 0 else None, {"x": x2})
        orig = ev._run_path

        def run_path(dec, ev=ev, orig=orig):
            ev._dec_proxy = dec
            ev.sig = []
            ev.calls = []
            return orig(dec)
        ev._run_path = run_path
        st = ev.run()[0]["stores"]
        return tuple(ev.sig), list(ev.calls), st.get((1, 0))
    for fname, (ff, meta, mod) in sorted(facts.items()):
        nm = meta["what"]
        ths = thresholds(ff)
        pts = {m * 10.0 ** k for k in range(-30, 9) for m in (1.0, 3.3)}
        for c in ths:
            pts.update({c * (1 - 1e-3), c * (1 - 1e-9), c * (1 + 1e-9), c * (1 + 1e-3), c * c, c * 1.5})
        pts = sorted(p for p in pts if p > 0)
        try:
            res = [(x2,) + ev_at(ff, x2) for x2 in pts]
            # TT.path
            large = [r for r in res if r[0] >= 4.0 and all(r[0] > 1.5 * c for c in ths)]
            bad = [r for r in large if not any(c in ("sin", "cos") for c in r[2])]
            rep.instance(rule + ".path", "detail::" + nm, "large arguments", ok=not bad and bool(large), sample={"witness": fname, "arguments": len(large), "switch_constants": ths})
            if bad or not large:
                rep.violation(Finding(rule + ".path", "detail::" + nm, "large arguments",
                                      "detail::%s: for x^2 = %g (beyond every comparison constant %s of the function) the value is computed without a libm sine / cosine, i.e. by a polynomial or "
                                      "rational function of x^2 -- a truncated series is used where the closed form is needed; it cannot be accurate for every rotation norm" % (nm, bad[0][0] if bad else 0, ths),
                                      None, None, detail={"witness": fname}))
            # TT.rnd
            worst = max(res, key=lambda r: (r[3].e / max(abs(r[3].v), 1e-300)) if r[3] is not None else INF)
            rel = worst[3].e / max(abs(worst[3].v), 1e-300)
            ok = rel < 100 * rel_tol
            rep.instance(rule + ".rnd", "detail::" + nm, "conditioning", ok=ok, sample={"witness": fname, "worst_relative_bound": rel, "at_x2": worst[0]})
            if not ok:
                rep.violation(Finding(rule + ".rnd", "detail::" + nm, "conditioning", "detail::%s: at x^2 = %.6g the compiled formula has a first-order rounding bound of %.2g relative to its value %.3g "
                                      "(reported from 100x %g): it cancels catastrophically there" % (nm, worst[0], rel, worst[3].v, rel_tol), None, None, detail={"witness": fname}))
            # TT.cont
            nflip = 0
            for (xa, sa, _, va), (xb, sb, _, vb) in zip(res, res[1:]):
                if sa == sb:
                    continue
                lo, hi, vlo, vhi = xa, xb, va, vb
                for _ in range(80):
                    mid = 0.5 * (lo + hi)
                    if mid <= lo or mid >= hi:
                        break
                    sm, _, vm = ev_at(ff, mid)
                    if sm == sa:
                        lo, vlo = mid, vm
                    else:
                        hi, vhi = mid, vm
                nflip += 1
                jump = (abs(vlo.v - vhi.v) - vlo.e - vhi.e) / max(abs(vlo.v), 1e-300)
                ok = jump <= 2 * rel_tol
                rep.instance(rule + ".cont", "detail::" + nm, "flip at x2 = %.6g" % lo, ok=ok, sample={"witness": fname, "jump_relative": jump})
                if not ok:
                    rep.violation(Finding(rule + ".cont", "detail::" + nm, "flip at x2 = %.6g" % lo, "detail::%s: the two branches that meet at x^2 = %.12g give %.15g and %.15g: a relative jump of %.3g "
                                          "beyond rounding (2 x %g allowed)" % (nm, lo, vlo.v, vhi.v, jump, rel_tol), None, None, detail={"witness": fname}))
            if nflip == 0:
                rep.instance(rule + ".cont", "detail::" + nm, "no case split", ok=True, nontrivial=False, sample={"witness": fname})
        except (poly.Unsupported, ir.Unresolved) as ex:
            rep.broke("%s: detail::%s: %s" % (rule, nm, ex))


SPECIAL_SO2 = [(0.0, 1.0), (0.0, -1.0), (1.0, 0.0), (-1.0, 0.0), (0.6, 0.8), (-0.6, -0.8), (0.8, -0.6)]
SPECIAL_SO3 = [(0.0, 0.0, 0.0, 1.0), (1.0, 0.0, 0.0, 0.0), (0.0, 1.0, 0.0, 0.0), (0.0, 0.0, 1.0, 0.0), (0.6, 0.0, 0.0, 0.8), (0.0, 0.6, 0.8, 0.0), (0.0, 0.0, 0.28, 0.96)]
# (offset, size) of the rotation coefficients in coeffs(), and of the rotation coordinates in the tangent
ROT_LAYOUT = {"SO2d": ((0, 2), (0, 1)), "SO3d": ((0, 4), (0, 3)), "SE2d": ((2, 2), (2, 1)), "SE3d": ((3, 4), (3, 3)), "Galileid": ((7, 4), (7, 3)), "SE_2_3d": ((6, 4), (6, 3))}


def run_special_logs(rep, rule="RND.E", tol=1e-9):
    """log at the exactly representable elements where it is singular or changes branch -- identity, half turns (about the axes and about a general axis), quarter turns, a generic
    rational rotation -- with non-zero translation parts: the optimized IR of log(g) and of exp(log(g)) is interpreted in the (value, rounding bound) domain.  Every output is finite (no
    division by exactly zero, no NaN), the rotation part of log(g) has norm at most pi, and exp(log(g)) returns the coefficients of g (up to the sign of the quaternion) within tol + bound."""
    import irw
    rep.rule(rule, "log(g) at exactly representable special elements (identity, half turns, quarter turns): finite, rotation norm <= pi, exp(log(g)) == g", minimum=30)
    gs = [g for g in groups.catalogue("quick") if g.key in ROT_LAYOUT]
    W = irw.IRW("rnd_logs", groups.PRELUDE, chunk=2)
    for g in gs:
        W.add("logs_%s" % g.key, "const double* p0, double* o1, double* o2",
              "  using GT = %s;\n  smooth::Map<const GT> g(p0);\n  Eigen::Map<Eigen::Matrix<double, GT::Dof, 1>> m1(o1);\n  Eigen::Map<Eigen::Matrix<double, GT::RepSize, 1>> m2(o2);\n"
              "  const typename GT::Tangent a = g.log();\n  m1 = a;\n  m2 = GT::exp(a).coeffs();" % g.ctype, g=g)
    facts = W.build()
    rep.unit("%d log witnesses" % len(W.wits))
    NE.U = 2.0 ** -53
    fill = [1.5, -2.0, 0.75, 3.0, -0.5, 1.25, 2.0]
    for fname, (ff, meta, mod) in sorted(facts.items()):
        g = meta["g"]
        (ro, rn), (to, tn) = ROT_LAYOUT[g.key]
        for sp in (SPECIAL_SO2 if rn == 2 else SPECIAL_SO3):
            coeffs = [fill[i % len(fill)] for i in range(g.rep)]
            coeffs[ro:ro + rn] = list(sp)
            inst = "rotation coefficients %s" % (sp,)
            try:
                ev = RndEval(ff, lambda p, off, ty: ("c%d" % (off // 8)) if p == 0 else None, {"c%d" % i: coeffs[i] for i in range(g.rep)})
                orig = ev._run_path

                def run_path(dec, ev=ev, orig=orig):
                    ev._dec_proxy = dec
                    return orig(dec)
                ev._run_path = run_path
                st = ev.run()[0]["stores"]
            except (poly.Unsupported, ir.Unresolved) as ex:
                rep.broke("%s: %s at %s: %s" % (rule, g.ctype, inst, ex))
                continue
            lg = [st.get((1, 8 * k)) for k in range(g.dof)]
            back = [st.get((2, 8 * k)) for k in range(g.rep)]
            bad = None
            if any(c is None for c in lg + back):
                bad = "an output coefficient is not written"
            elif any(c.e == INF or c.v != c.v or abs(c.v) == INF for c in lg):
                k = next(i for i, c in enumerate(lg) if c.e == INF or c.v != c.v or abs(c.v) == INF)
                bad = "coordinate %d of log(g) is not finite (value %r): a division by exactly zero / an invalid operation at this element" % (k, lg[k].v)
            else:
                nrm = math.sqrt(sum(lg[to + i].v ** 2 for i in range(tn)))
                if nrm > math.pi * (1 + 1e-12) + sum(lg[to + i].e for i in range(tn)):
                    bad = "the rotation part of log(g) has norm %.15g > pi" % nrm
                elif any(c.e == INF or c.v != c.v for c in back):
                    bad = "exp(log(g)) is not finite"
                else:
                    # the quaternion is determined up to sign
                    sgn = 1.0
                    if rn == 4 and sum(back[ro + i].v * coeffs[ro + i] for i in range(4)) < 0:
                        sgn = -1.0
                    for i in range(g.rep):
                        want = coeffs[i] * (sgn if ro <= i < ro + rn else 1.0)
                        scale = max(1.0, max(abs(x) for x in coeffs))
                        if abs(back[i].v - want) > tol * scale + back[i].e:
                            bad = "exp(log(g)) has coefficient %d = %.12g; g has %.12g (rounding bound %.2g)" % (i, back[i].v, want, back[i].e)
                            break
            rep.instance(rule, g.ctype, inst, ok=bad is None, sample={"witness": fname, "coefficients": coeffs})
            if bad:
                rep.violation(Finding(rule, g.ctype, inst, "%s with %s (coefficients %s): %s" % (g.ctype, inst, coeffs, bad), None, None, detail={"witness": fname}))


def run_norm_amplification(rep, rule="R6"):
    """R6: no operation amplifies an existing deviation from the unit-norm constraint.  With the rotation coefficients of one operand scaled by s (|q|^2 = s^2) the squared norm of the
    result's rotation coefficients N(s^2) is read off the optimized IR (value track of the rounding domain, scaled inputs s^2 = 1 and 1 + 1e-6); the factor |dN / d(s^2)| at s = 1 must
    not exceed 1: a factor a > 1 in an operation that can be repeated (inverse: |q|^-2 has factor 1, |q|^6 has factor 3) turns the accumulated defect eps into a^n eps after n
    operations, against the property's linear bound (n + 1) 1e-14.  Normalising operations have factor 0, composition factor 1 in each operand."""
    import irw
    rep.rule(rule, "norm-defect amplification |dN_out / dN_in| <= 1 for inverse, composition (each operand), *= and rplus on SO2 / SO3 / SE2 / SE3 (optimized IR)", minimum=12)
    W = irw.IRW("rnd_amp", groups.PRELUDE, chunk=4)
    gs = [g for g in groups.catalogue("quick") if g.key in ("SO2d", "SO3d", "SE2d", "SE3d")]
    ops = {
        "inverse": ("const double* p0, double* o1", "  smooth::Map<const GT> a(p0);\n  Eigen::Map<Eigen::Matrix<double, GT::RepSize, 1>> m1(o1);\n  m1 = a.inverse().coeffs();", [0]),
        "composition": ("const double* p0, const double* p1, double* o1",
                        "  smooth::Map<const GT> a(p0), b(p1);\n  Eigen::Map<Eigen::Matrix<double, GT::RepSize, 1>> m1(o1);\n  m1 = (a * b).coeffs();", [0, 1]),
        "operator*=": ("const double* p0, const double* p1, double* o1",
                       "  smooth::Map<const GT> a(p0), b(p1);\n  GT x = a;\n  x *= b;\n  Eigen::Map<Eigen::Matrix<double, GT::RepSize, 1>> m1(o1);\n  m1 = x.coeffs();", [0, 1]),
        "rplus": ("const double* p0, const double* p1, double* o1",
                  "  smooth::Map<const GT> a(p0);\n  Eigen::Map<const Eigen::Matrix<double, GT::Dof, 1>> t(p1);\n  Eigen::Map<Eigen::Matrix<double, GT::RepSize, 1>> m1(o1);\n  m1 = (a + t).coeffs();", [0]),
    }
    for g in gs:
        for nm, (sig, body, scaled) in ops.items():
            W.add("amp_%s_%s" % (g.key, re.sub(r"\W", "", nm) or "muleq"), sig, "  using GT = %s;\n%s" % (g.ctype, body), g=g, op=nm, scaled=scaled, nin=sig.count("const double*"))
    facts = W.build()
    rep.unit("%d amplification witnesses" % len(W.wits))
    NE.U = 2.0 ** -53
    units = {2: [(0.6, 0.8), (-0.28, 0.96)], 4: [(0.5, 0.5, 0.5, 0.5), (0.36, 0.48, 0.8, 0.0)]}
    fill = [1.5, -2.0, 0.75, 0.3, -0.5, 1.25, 0.2]
    delta = 1e-6
    for fname, (ff, meta, mod) in sorted(facts.items()):
        g, nm = meta["g"], meta["op"]
        (ro, rn), _ = ROT_LAYOUT[g.key]
        for which in meta["scaled"]:
            worst = 0.0
            broke = None
            for s2 in (1.0, 1.0 + delta):
                pass
            vals = []
            for s2 in (1.0, 1.0 + delta):
                s = math.sqrt(s2)
                inputs = {}
                for p in range(meta["nin"]):
                    tangent = (nm == "rplus" and p == 1)
                    n = g.dof if tangent else g.rep
                    v = [fill[(i + 2 * p) % len(fill)] * (0.3 if tangent else 1.0) for i in range(n)]
                    if not tangent:
                        u = units[rn][p % 2]
                        v[ro:ro + rn] = [x * (s if p == which else 1.0) for x in u]
                    for i in range(n):
                        inputs["x%d_%d" % (p, i)] = v[i]
                try:
                    ev = RndEval(ff, lambda p, off, ty, nin=meta["nin"]: ("x%d_%d" % (p, off // 8)) if p < nin else None, inputs)
                    orig = ev._run_path

                    def run_path(dec, ev=ev, orig=orig):
                        ev._dec_proxy = dec
                        return orig(dec)
                    ev._run_path = run_path
                    st = ev.run()[0]["stores"]
                except (poly.Unsupported, ir.Unresolved) as ex:
                    broke = str(ex)
                    break
                out = [st.get((meta["nin"], 8 * k)) for k in range(g.rep)]
                if any(c is None for c in out):
                    broke = "an output coefficient is not written"
                    break
                vals.append(sum(out[ro + i].v ** 2 for i in range(rn)))
            inst = "%s, operand %d" % (nm, which)
            if broke:
                rep.broke("%s: %s %s: %s" % (rule, g.ctype, inst, broke))
                continue
            amp = abs(vals[1] - vals[0]) / delta
            ok = amp <= 1.0 + 1e-3
            rep.instance(rule, g.ctype, inst, ok=ok, sample={"witness": fname, "amplification": amp})
            if not ok:
                rep.violation(Finding(rule, g.ctype, inst,
                                      "%s of %s: a deviation eps of operand %d's rotation coefficients from unit norm (|q|^2 = 1 + eps) comes out as %.3g eps in the result: every such operation multiplies "
                                      "the accumulated defect, so it grows geometrically with the number of operations instead of staying within (n + 1) 1e-14 (e.g. conj(q) |q|^2 in place of "
                                      "conj(q) / |q|^2)" % (nm, g.ctype, which, amp), None, None, detail={"witness": fname}))
