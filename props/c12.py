"""C12 -- spline construction, concatenation and cropping preserve the curve.

The member functions of smooth::Spline are abstractly executed (engine M, props/splinem.py) on abstract spline states and the curve
denoted by the resulting state is compared with the documented one (rules M1..M6); the Bernstein identity that makes the
constant-velocity scaling T/K right is discharged by static_assert (S3b); integrate_absolute_polynomial is C20's rule I1."""
import splinem
import tables
import wit


def s3_witnesses():
    ws = []
    for K in range(1, 7):
        d = "constexpr auto M = smooth::polynomial_cumulative_basis<vw::PolynomialBasis::Bernstein, %d>();\n" % K
        d += ("constexpr bool lin = [] { for (std::size_t i = 0; i < %d; ++i) { double s = 0; for (std::size_t j = 1; j < %d; ++j) s += M[i][j]; "
              "if (vw::cabs(s - (i == 1 ? %d. : 0.)) > 1e-12) return false; } return true; }();\n" % (K + 1, K + 1, K))
        d += "static_assert(lin, \"sum_{i=1..K} Bcum_i(u) != K*u for the Bernstein cumulative basis\");\n"
        ws.append(wit.Wit("bernstein_sum_%d" % K, "", d, what="sum_{i=1..%d} Bcum_i(u) = %d*u (coefficient space)" % (K, K), group="S3-basis-identity"))
    return ws


def check(rep, tier, replay=None):
    rep.explanations.append(
        "C12: Spline's constructors, operator(), crop, concat_*, make_local and arclength are abstractly executed on abstract spline states (free-group "
        "poses, opaque control velocities, exact rational knot times); the curve denoted by the resulting state -- value, velocity and acceleration on "
        "every segment, plus the state invariant -- is compared with the curve the operation documents.  The verdict depends on the effect of the "
        "statements on the abstract state, not on their spelling.")
    rep.trusted.update(["clang++-16 front end", "lib/mach.py (abstract machine) and its models of std::vector / optional outputs",
                        "contract of utils::binary_interval_search (decided by C20/I2)", "cspline_eval_vs as an opaque segment evaluator (decided by C11)"])
    rep.assumptions.append("bounded abstract execution: splines of 0, 1 and 3 segments (uncropped and pre-cropped), degrees 0..5, rational sample times incl. knots and "
                           "out-of-range arguments; rounding is not decided")
    rep.unit("umbrella TU filtered Spline / BasisFunction")
    splinem.check(rep, tier)
    tables.run(rep, "S3b", s3_witnesses(), "sum_i Bcum_i(u) = K*u for the Bernstein cumulative basis (makes (T/K) v the constant-velocity control velocity)", 6)
    # arclength sums integrate_absolute_polynomial over the segments (M6 decides bounds and integrand; the helper itself is C20's rule I1)
    import c20
    c20.check_i1(rep)
