import math

import algebra
import layers
import raychk
import roundir
import switches


def check(rep, tier, replay=None):
    switches.run(rep, "C04")
    layers.run(rep, 1)
    layers.run_rminus(rep)
    layers.run_ir(rep, tier, 1)
    rep.explanations.append(
        "dr_action: for SO2/SO3/SE2/SE3/Galilei the returned matrix equals, column by column, matrix(g) hat(e_i) [v;1] -- the derivative of "
        "(g exp(eps e_i)) v at eps = 0 -- as an exact polynomial identity modulo the unit-norm constraints (optimized IR, polynomial domain).")
    algebra.check_identities(rep, tier, "C04")
    rep.explanations.append(
        "Rule T (engine R, lib/rays.py): the tangent input is abstracted as a = t*a0 along rational rays; the optimized IR of the witness is "
        "interpreted in the domain of truncated power series in t over exact rationals, and the closed-form path must reproduce the "
        "defining series coefficient by coefficient to order 8 (dr_exp(a) = sum (-1)^k ad(a)^k/(k+1)!, dr_expinv(a) dr_exp(a) = I); polynomial branches of small-angle switches may differ only "
        "by terms below the tolerance at the largest t that selects them.  A mismatch is a definite violation; agreement along the rays "
        "examined is a necessary condition of the identity for all a (not a proof).  Rounding is not modelled.")
    raychk.run(rep, tier, "C04", ["drexp", "drinv"], 1e-7)
    rep.explanations.append(
        "Rule RND (props/roundir.py): first-order rounding-bound interpretation of the same IR over a grid of angles (both sides of every switch constant, pi - 10^-k; the inverse "
        "up to pi - 1e-3), double 1e-7 and float 1e-2; >= 100x the tolerance is a violation.")
    roundir.run(rep, tier, "C04", ["drexp", "drinv"], 1e-7, 1e-2, max_angle={"drinv": math.pi - 1e-3})
    rep.explanations.append(
        "Rules TT (props/roundir.py: run_tails): the Taylor-tail helpers of detail/trig.hpp as their own witnesses -- on the path taken for arguments beyond every comparison constant the value "
        "goes through a libm sine / cosine (a polynomial cannot serve every rotation norm), the rounding bound relative to the value stays below 100 x 1e-9, and the value is continuous where the "
        "branches meet.")
    roundir.run_tails(rep, "TT")
    layers.flush(rep)      # reports of the supplementary source-level layer rules count only if a T rule on the optimized IR fails as well
