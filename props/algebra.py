"""Exact algebraic identities of the group operations (C01, C03), decided as polynomial identities modulo the
representation constraints over the optimized IR of API-level witnesses (lib/poly.py)."""
import re

import fe
import groups
import ir
import irw
import poly
from report import Finding


def unit_sets(g, base=0):
    """lists of cell indices that form a unit-norm tuple inside group g's representation"""
    k = g.key
    if g.members:
        out = []
        off = 0
        for m in g.members:
            out += unit_sets(m, base + off)
            off += m.rep
        return out
    if k.startswith("SO2"):
        return [[base + 0, base + 1]]
    if k.startswith("SO3"):
        return [[base + i for i in range(4)]]
    if k.startswith("SE2"):
        return [[base + 2, base + 3]]
    if k.startswith("SE3"):
        return [[base + 3 + i for i in range(4)]]
    if k.startswith("Galilei"):
        return [[base + 7 + i for i in range(4)]]
    if k.startswith("SE_2_3"):
        return [[base + 6 + i for i in range(4)]]
    if k.startswith("SE_1_3"):
        return [[base + 3 + i for i in range(4)]]
    if k.startswith("SE_3_3"):
        return [[base + 9 + i for i in range(4)]]
    return []      # C1 (scaled rotations) and vectors carry no constraint


ACTION = {"SO2": 2, "SO3": 3, "SE2": 2, "SE3": 3, "Galilei": 4}


def witnesses(gs, which):
    W = irw.IRW("alg_" + which, groups.PRELUDE, chunk=3)
    for g in gs:
        S = g.scalar
        if S != "double":
            continue
        k = g.key
        pre = "  using GT = %s;\n" % g.ctype
        gin = lambda i: "  smooth::Map<const GT> x%d(p%d);\n" % (i, i)
        tin = lambda i: "  Eigen::Map<const Eigen::Matrix<double, GT::Dof, 1>> t%d(p%d);\n" % (i, i)
        omat = lambda n, r, c: "  Eigen::Map<Eigen::Matrix<double, %s, %s>> %s(o%s);\n" % (r, c, n, n[-1])
        sig2 = "const double* p0, const double* p1, double* o1, double* o2"
        sig3 = "const double* p0, const double* p1, const double* p2, double* o1, double* o2"

        def add(name, sig, body, roles, shape, prop, what, zero=False, ident=False):
            W.add("alg_%s_%s" % (k, name), sig, pre + body, g=g, roles=roles, shape=shape, prop=prop, what=what, name=name, zero=zero, ident=ident)
        if which == "C01":
            add("hom", sig2, gin(0) + gin(1) + omat("m1", "GT::Dim", "GT::Dim") + omat("m2", "GT::Dim", "GT::Dim")
                + "  m1 = (x0 * x1).matrix();\n  m2 = x0.matrix().lazyProduct(x1.matrix());\n", ["rep", "rep"], g.dim * g.dim, "C01",
                "matrix(g1*g2) == matrix(g1) matrix(g2)")
            add("inv", sig2, gin(0) + omat("m1", "GT::Dim", "GT::Dim") + omat("m2", "GT::Dim", "GT::Dim")
                + "  m1 = x0.inverse().matrix().lazyProduct(x0.matrix());\n  m2 = x0.matrix().lazyProduct(x0.inverse().matrix());\n", ["rep", None], g.dim * g.dim, "C01",
                "matrix(inverse(g)) matrix(g) == I == matrix(g) matrix(inverse(g))", ident=True)
            add("idm", sig2, omat("m1", "GT::Dim", "GT::Dim") + omat("m2", "GT::Dim", "GT::Dim")
                + "  m1 = GT::Identity().matrix();\n  m2 = (GT::Identity() * GT::Identity()).matrix();\n", [None, None], g.dim * g.dim, "C01",
                "matrix(Identity) == I", ident=True)
            add("sq", sig2, gin(0) + omat("m1", "GT::Dim", "GT::Dim") + omat("m2", "GT::Dim", "GT::Dim")
                + "  GT g = x0;\n  g *= g;\n  m1 = g.matrix();\n  m2 = x0.matrix().lazyProduct(x0.matrix());\n", ["rep", None], g.dim * g.dim, "C01",
                "g *= g gives matrix(g) matrix(g) (in-place composition whose right operand is the object itself)")
            base = re.match(r"^(SO2|SO3|SE2|SE3|Galilei)d$", k)
            if base:
                n = ACTION[base.group(1)]
                hom = "v.homogeneous()" if base.group(1) in ("SE2", "SE3", "Galilei") else "v"
                add("act", sig2, gin(0) + "  Eigen::Map<const Eigen::Matrix<double, %d, 1>> v(p1);\n" % n
                    + omat("m1", str(n), "1") + omat("m2", str(n), "1")
                    + "  m1 = x0 * v;\n  m2 = (x0.matrix().lazyProduct(%s)).template head<%d>();\n" % (hom, n), ["rep", "vec%d" % n], n, "C01",
                    "g * v == matrix(g) applied to the point v")
        elif which == "C04":
            base = re.match(r"^(SO2|SO3|SE2|SE3|Galilei)d$", k)
            if base:
                n = ACTION[base.group(1)]
                hom = "v.homogeneous()" if base.group(1) in ("SE2", "SE3", "Galilei") else "v"
                body = (gin(0) + "  Eigen::Map<const Eigen::Matrix<double, %d, 1>> v(p1);\n" % n
                        + omat("m1", str(n), "GT::Dof") + omat("m2", str(n), "GT::Dof")
                        + "  m1 = x0.dr_action(v);\n  const typename GT::Matrix M = x0.matrix();\n  const Eigen::Matrix<double, GT::Dim, 1> vh = %s;\n" % hom
                        + "  for (int i = 0; i < GT::Dof; ++i) {\n    const typename GT::Matrix Mh = M.lazyProduct(GT::hat(GT::Tangent::Unit(i)));\n"
                        + "    m2.col(i) = (Mh.lazyProduct(vh)).template head<%d>();\n  }\n" % n)
                add("dract", sig2, body, ["rep", "vec%d" % n], n * g.dof, "C04",
                    "dr_action(v) e_i == matrix(g) hat(e_i) [v;1]  (the derivative of (g exp(eps e_i)) v at eps = 0)")
        else:
            add("veehat", sig2, tin(0) + omat("m1", "GT::Dof", "1") + omat("m2", "GT::Dof", "1")
                + "  m1 = GT::vee(GT::hat(t0));\n  m2 = t0;\n", ["tan", None], g.dof, "C03", "vee(hat(a)) == a")
            add("ad_def", sig2, tin(0) + tin(1) + omat("m1", "GT::Dof", "1") + omat("m2", "GT::Dof", "1")
                + "  m1 = GT::ad(t0).lazyProduct(t1);\n  m2 = GT::vee(GT::hat(t0).lazyProduct(GT::hat(t1)) - GT::hat(t1).lazyProduct(GT::hat(t0)));\n", ["tan", "tan"], g.dof, "C03",
                "ad(a) b == vee(hat(a) hat(b) - hat(b) hat(a))")
            if g.dof < 8:     # for Dof >= 8 Eigen evaluates ad(a)*b through its run-time gemv kernel (outside the polynomial domain);
                              # the definition lie_bracket(a,b) = ad(a)*b is then checked on the AST (rule A.bracket)
              add("bracket", sig2, tin(0) + tin(1) + omat("m1", "GT::Dof", "1") + omat("m2", "GT::Dof", "1")
                  + "  m1 = GT::lie_bracket(t0, t1);\n  m2 = GT::ad(t0).lazyProduct(t1);\n", ["tan", "tan"], g.dof, "C03", "lie_bracket(a, b) == ad(a) b")
            add("antisym", sig2, tin(0) + tin(1) + omat("m1", "GT::Dof", "1") + omat("m2", "GT::Dof", "1")
                + "  m1 = GT::ad(t0).lazyProduct(t1) + GT::ad(t1).lazyProduct(t0);\n  m2.setZero();\n", ["tan", "tan"], g.dof, "C03", "ad(a) b + ad(b) a == 0", zero=True)
            add("jacobi", sig3, tin(0) + tin(1) + tin(2) + omat("m1", "GT::Dof", "1") + omat("m2", "GT::Dof", "1")
                + "  const typename GT::Tangent u12 = GT::ad(t1).lazyProduct(t2), u20 = GT::ad(t2).lazyProduct(t0), u01 = GT::ad(t0).lazyProduct(t1);\n  m1 = GT::ad(t0).lazyProduct(u12) + GT::ad(t1).lazyProduct(u20) + GT::ad(t2).lazyProduct(u01);\n  m2.setZero();\n",
                ["tan", "tan", "tan"], g.dof, "C03", "Jacobi identity of the bracket", zero=True)
            add("Ad_def", sig2, gin(0) + tin(1) + omat("m1", "GT::Dof", "1") + omat("m2", "GT::Dof", "1")
                + "  m1 = x0.Ad().lazyProduct(t1);\n  const typename GT::Matrix mh = x0.matrix().lazyProduct(GT::hat(t1));\n  m2 = GT::vee(mh.lazyProduct(x0.inverse().matrix()));\n", ["rep", "tan"], g.dof, "C03",
                "Ad(g) a == vee(matrix(g) hat(a) matrix(g)^-1)")
            add("Ad_hom", sig2, gin(0) + gin(1) + omat("m1", "GT::Dof", "GT::Dof") + omat("m2", "GT::Dof", "GT::Dof")
                + "  m1 = (x0 * x1).Ad();\n  m2 = x0.Ad().lazyProduct(x1.Ad());\n", ["rep", "rep"], g.dof * g.dof, "C03", "Ad(g1*g2) == Ad(g1) Ad(g2)")
    return W


def refine_equality_path(path, st, nin, n, meta, cons):
    """None when the identity holds on this equality-guarded path both exactly (after substituting the equalities) and, to 1e-10 relative, on its
    floating-point neighbourhood; otherwise the reason"""
    sigma = poly.equality_substitution(path["eqs"], cons)
    if sigma is None:
        return "the path is guarded by an exact equality test whose consequences are outside the analysis"
    pairs = []
    for c in range(n):
        a, b = st.get((nin, c * 8)), st.get((nin + 1, c * 8))
        if meta["ident"]:
            dim = int(round(n ** 0.5))
            want = poly.RF.const(1 if (c % dim) == (c // dim) else 0)
            pairs += [(a, want), (b, want)]
        else:
            pairs.append((a, b))
    for a, b in pairs:
        if not poly.rf_equal(poly.rf_subst(a, sigma), poly.rf_subst(b, sigma), cons):
            return "it also fails exactly where the equality test of the path holds (%s)" % ", ".join("%s = %s" % kv for kv in sorted(sigma.items()))
    variables = set()
    for a, b in pairs:
        for r in (a, b):
            variables |= poly.p_vars(r.n) | poly.p_vars(r.d)
    point = poly.float_witness(sigma, path["eqs"], cons, variables)
    if point is None:
        return "no floating-point witness could be constructed for the equality-guarded path"
    worst = 0.0
    for a, b in pairs:
        va, vb = poly.rf_value(a, point), poly.rf_value(b, point)
        if va is None or vb is None:
            return "the two sides cannot be evaluated at the floating-point witness of the equality-guarded path"
        err = abs(va - vb) / max(1, abs(vb))
        worst = max(worst, float(err))
    if worst > 1e-10:
        return ("the path is taken whenever the tested quantity *rounds* to the constant (%s): at such an input (the other coordinates of the unit tuple about 1e-8) "
                "the two sides differ by %.1e relative, far above rounding" % (", ".join("%s == %s" % kv for kv in sorted(sigma.items()) if kv[1] != 0), worst))
    return None


def check_identities(rep, tier, which, W=None, rule=None, minimum=None, desc=None):
    rule = rule or ("A." + which)
    gs = [g for g in groups.catalogue("quick")] + [g for g in groups.catalogue("thorough") if g.key in ("B_commutative", "SE_3_3d")]
    if tier == "thorough":
        gs += [g for g in groups.catalogue("thorough") if g.key in ("SE_1_3d", "B_SE3d_SO2d_V3d_C1d", "B_nested")]
    rep.rule(rule, desc or "algebraic identity holds as an exact polynomial identity modulo the representation constraints, on every path",
             minimum=minimum if minimum is not None else {"C04": 5}.get(which, 20))
    W = W or witnesses(gs, which)
    facts = W.build()
    rep.cmds.append(fe.clangxx() + " " + " ".join(fe.IR_FLAGS))
    rep.unit("%d identity witnesses (two sides of each identity written to two output buffers)" % len(W.wits))
    for fname, (ff, meta, mod) in sorted(facts.items()):
        g = meta["g"]
        roles = meta["roles"]
        nin = len(roles)
        cons = poly.Constraints()
        for pi, r in enumerate(roles):
            if r == "rep":
                for us in unit_sets(g):
                    cons.unit(["x%d_%d" % (pi, c) for c in us])

        def cell_var(p, off, ty, nin=nin, roles=roles):
            if p >= nin or roles[p] is None:
                return None
            return "%s%d_%d" % ("x" if roles[p] == "rep" else "t", p, off // 8)
        try:
            paths = poly.evaluate(ff, cell_var, cons)
        except poly.Narrowing as ex:
            rep.instance(rule, g.ctype, meta["name"], ok=False, sample={"witness": fname, "identity": meta["what"]})
            rep.violation(Finding(rule, g.ctype, meta["name"],
                                  "%s: a value is narrowed to a lower floating-point precision inside this double-precision operation (`%s`); "
                                  "the identity then only holds to single precision" % (meta["what"], str(ex)[:80]), None, None, detail={"witness": fname}))
            continue
        except (poly.Unsupported, ir.Unresolved) as ex:
            rep.broke("%s: cannot abstract into the polynomial domain: %s" % (fname, ex))
            continue
        n = meta["shape"]
        bad = None
        for path in paths:
            st = path["stores"]
            for c in range(n):
                a = st.get((nin, c * 8))
                b = st.get((nin + 1, c * 8))
                if a is None or b is None:
                    bad = ("cell %d is not written on a path (the result keeps whatever the storage held)" % c, path)
                    break
                if meta["ident"]:
                    dim = int(round(n ** 0.5))
                    want = poly.RF.const(1 if (c % dim) == (c // dim) else 0)
                    okc = poly.rf_equal(a, want, cons) and poly.rf_equal(b, want, cons)
                    other = want
                else:
                    okc = poly.rf_equal(a, b, cons)
                    other = b
                if not okc:
                    an, on = a.normal(cons), other.normal(cons)
                    bad = ("cell %d: left side = %s%s ; right side = %s%s" % (
                        c, poly.p_show(an.n), "" if poly.p_is_const(an.d) else " / (%s)" % poly.p_show(an.d, 3),
                        poly.p_show(on.n), "" if poly.p_is_const(on.d) else " / (%s)" % poly.p_show(on.d, 3)), path)
                    break
            if bad and path.get("eqs"):
                # the path is taken only when an exact floating-point equality holds (a fast path such as `q_w == 1`): in exact arithmetic the
                # equality may make the identity true (then the symbolic mismatch above is an artefact); in floating point the same path is taken on
                # a whole neighbourhood of the equality set, where the identity must still hold to working accuracy
                verdict = refine_equality_path(path, st, nin, n, meta, cons)
                if verdict is None:
                    bad = None
                    continue
                bad = (bad[0] + "; " + verdict, path)
            if bad:
                break
        rep.instance(rule, g.ctype, meta["name"], ok=bad is None,
                     sample={"witness": fname, "identity": meta["what"], "paths": len(paths), "cells": n})
        if bad:
            conds = ", ".join("%s=%s" % c for c in bad[1]["conds"][:4])
            rep.violation(Finding(rule, g.ctype, meta["name"],
                                  "%s fails as a polynomial identity (path: %s): %s" % (meta["what"], conds or "straight-line", bad[0]),
                                  None, None, detail={"witness": fname}))


def check_bracket_ast(rep):
    """A.bracket: LieGroupBase::lie_bracket, abstractly executed (engine M) on opaque tangents: the result is the term ad(a) * b, and the zero tangent for
    commutative groups.  (For Dof >= 8 Eigen evaluates ad(a) * b through its run-time gemv kernel, outside the polynomial domain; for smaller groups the
    polynomial witnesses decide the value.)"""
    import astlib as A
    import mach
    from mmodels import Term
    rep.rule("A.bracket", "LieGroupBase::lie_bracket(a, b), abstractly executed on opaque tangents, is ad(a) * b (zero for commutative groups)", minimum=2)
    idx = A.index(fe.ast_dump("LieGroupBase"))
    fns = [d for d in idx if d.kind in A.FUNCS and d.pattern and d.qname.endswith("LieGroupBase::lie_bracket") and A.body(d.node) is not None]
    if len(fns) != 1:
        rep.broke("A.bracket: LieGroupBase::lie_bracket not found")
        return
    d = fns[0]
    for comm in (False, True):
        M = mach.Machine(funcs={"ad": mach.PyFunc(lambda M_, v: Term("ad(%s)" % mach.show_val(v[0]))), "Zero": mach.PyFunc(lambda M_, v: Term("0")),
                                "method:Zero": mach.PyFunc(lambda M_, o, a, t, env: Term("0"), lazy=True),
                                "method:noalias": mach.PyFunc(lambda M_, o, a, t, env: o, lazy=True),
                                "method:setZero": mach.PyFunc(lambda M_, o, a, t, env: o.set(Term("0")), lazy=True),
                                "method:eval": mach.PyFunc(lambda M_, o, a, t, env: M_.rv(o), lazy=True)})
        M.global_env = mach.Env()
        M.global_env.bind("IsCommutative", mach.Cell(comm))
        try:
            r = M.run_function(d, [mach.Cell(Term("a")), mach.Cell(Term("b"))])
        except (mach.Unab, mach.AbstractViolation) as ex:
            rep.broke("A.bracket: lie_bracket is outside the abstract machine: %s" % ex)
            return
        want = "0" if comm else "(ad(a) * b)"
        ok = isinstance(r, Term) and r.name == want
        rep.instance("A.bracket", "LieGroupBase::lie_bracket", "commutative" if comm else "non-commutative", ok=ok, sample={"file": fe.rel(d.file), "line": d.line, "value": mach.show_val(r)})
        if not ok:
            rep.violation(Finding("A.bracket", "LieGroupBase::lie_bracket", "definition", "lie_bracket(a, b) evaluates to %s for a %s group; the bracket is %s"
                                  % (mach.show_val(r), "commutative" if comm else "non-commutative", want), d.file, d.line))
