import math

import layers
import raychk
import roundir
import switches


def check(rep, tier, replay=None):
    switches.run(rep, "C05")
    layers.run(rep, 2)
    layers.run_ir(rep, tier, 2)
    rep.explanations.append(
        "Rule T (engine R, lib/rays.py): the tangent input is abstracted as a = t*a0 along rational rays; the optimized IR of the witness is "
        "interpreted in the domain of truncated power series in t over exact rationals, and the closed-form path must reproduce the "
        "defining series coefficient by coefficient to order 8 (d2r_exp(a) contracted with a second rational direction b = d/ds of the dr_exp series at a + s b; d2r_expinv likewise through -J^-1 dJ J^-1); polynomial branches of small-angle switches may differ only "
        "by terms below the tolerance at the largest t that selects them.  A mismatch is a definite violation; agreement along the rays "
        "examined is a necessary condition of the identity for all a (not a proof).  Rounding is not modelled.")
    raychk.run(rep, tier, "C05", ["d2rexp", "d2rinv", "d2rminus", "sqnorm"], 1e-5)
    rep.explanations.append(
        "Rule RND (props/roundir.py): first-order rounding-bound interpretation of the d2r_exp / d2r_expinv IR over a grid of angles up to pi - 1e-3 (both sides of every "
        "switch constant), double, tolerance 1e-5; >= 100x the tolerance is a violation.")
    roundir.run(rep, tier, "C05", ["d2rexp", "d2rinv"], 1e-5, None, max_angle={"d2rexp": math.pi - 1e-3, "d2rinv": math.pi - 1e-3})
    check_df(rep)
    import dfm
    rep.explanations.append(
        "Rule DF.exec (props/dfm.py, engine M): d_matrix_product and d2_fog are executed from the AST on symbolic matrices for fixed-size, fully dynamic and mixed "
        "instantiations, with a dense and a sparse outer Jacobian; every block must equal the product / chain rule as a polynomial identity, no view may leave its matrix, and a "
        "fixed-size view whose extent is Eigen::Dynamic (which does not compile) is reported.")
    dfm.check(rep, tier)
    layers.flush(rep)      # reports of the supplementary source-level layer rules count only if a T rule on the optimized IR fails as well




def check_df(rep):
    """DF: d2_fog(Jf, Hf, Jg, Hg) block i == Jg' Hf_i Jg + sum_k Jf(i,k) Hg_k and d_matrix_product(A, dA, B, dB) == d(A B) in the horizontally
    stacked layout, as exact polynomial identities in symbolic matrix entries (engine P) against index-level reference loops."""
    import fe
    import groups
    import ir
    import irw
    import poly
    from report import Finding
    rep.rule("DF", "d2_fog and d_matrix_product equal their index-level definitions as polynomial identities in symbolic entries", minimum=2)
    W = irw.IRW("c05_df", groups.PRELUDE + "#include <smooth/derivatives.hpp>\n", chunk=1)
    No, Ny, Nx = 2, 3, 2
    sig = "const double* p0, const double* p1, const double* p2, const double* p3, double* o1, double* o2"
    body = ("  constexpr int No = %d, Ny = %d, Nx = %d;\n" % (No, Ny, Nx)
            + "  Eigen::Map<const Eigen::Matrix<double, No, Ny>> Jf(p0);\n  Eigen::Map<const Eigen::Matrix<double, Ny, No * Ny>> Hf(p1);\n"
            "  Eigen::Map<const Eigen::Matrix<double, Ny, Nx>> Jg(p2);\n  Eigen::Map<const Eigen::Matrix<double, Nx, Ny * Nx>> Hg(p3);\n"
            "  Eigen::Map<Eigen::Matrix<double, Nx, No * Nx>> m1(o1), m2(o2);\n"
            "  const Eigen::Matrix<double, No, Ny> Jf_ = Jf; const Eigen::Matrix<double, Ny, No * Ny> Hf_ = Hf;\n"
            "  const Eigen::Matrix<double, Ny, Nx> Jg_ = Jg; const Eigen::Matrix<double, Nx, Ny * Nx> Hg_ = Hg;\n"
            "  m1 = smooth::d2_fog(Jf_, Hf_, Jg_, Hg_);\n"
            "  for (int i = 0; i < No; ++i) for (int r = 0; r < Nx; ++r) for (int c = 0; c < Nx; ++c) {\n"
            "    double acc = 0;\n"
            "    for (int a = 0; a < Ny; ++a) for (int b = 0; b < Ny; ++b) acc += Jg(a, r) * Hf(a, Ny * i + b) * Jg(b, c);\n"
            "    for (int k = 0; k < Ny; ++k) acc += Jf(i, k) * Hg(r, Nx * k + c);\n"
            "    m2(r, Nx * i + c) = acc;\n  }\n")
    W.add("df_d2_fog", sig, body, shape=Nx * No * Nx, nin=4, sizes=[No * Ny, Ny * No * Ny, Ny * Nx, Nx * Ny * Nx],
          what="d2_fog(Jf, Hf, Jg, Hg) block i == Jg' Hf_i Jg + sum_k Jf(i,k) Hg_k")
    body2 = ("  constexpr int N = 2, Nv = 3;\n"
             "  Eigen::Map<const Eigen::Matrix<double, N, N>> A(p0), B(p2);\n  Eigen::Map<const Eigen::Matrix<double, N, N * Nv>> dA(p1), dB(p3);\n"
             "  Eigen::Map<Eigen::Matrix<double, N, N * Nv>> m1(o1), m2(o2);\n"
             "  const Eigen::Matrix<double, N, N> A_ = A, B_ = B; const Eigen::Matrix<double, N, N * Nv> dA_ = dA, dB_ = dB;\n"
             "  m1 = smooth::d_matrix_product(A_, dA_, B_, dB_);\n"
             "  // block i (columns Nv*i ..) = d((A B)(i, :))' / dx = B' dA_i + sum_j A(i, j) dB_j\n"
             "  for (int i = 0; i < N; ++i) for (int r = 0; r < N; ++r) for (int v = 0; v < Nv; ++v) {\n"
             "    double acc = 0;\n    for (int k = 0; k < N; ++k) acc += B(k, r) * dA(k, Nv * i + v);\n"
             "    for (int j = 0; j < N; ++j) acc += A(i, j) * dB(r, Nv * j + v);\n    m2(r, Nv * i + v) = acc;\n  }\n")
    W.add("df_d_matrix_product", sig, body2, shape=2 * 2 * 3, nin=4, sizes=[4, 12, 4, 12],
          what="d_matrix_product(A, dA, B, dB) block i == B' dA_i + sum_j A(i,j) dB_j (square matrices, as used by SE3 d2r_expinv)")
    # d_matrix_product: A [N x K]?  documented: A [N x K], dA [K x N*Nvar], B [K x M], dB [M x K*Nvar] -> d(A B) [M x N*Nvar] (Hessian form: block per row of the product)
    facts = W.build()
    rep.unit("%d chain-rule witnesses (symbolic matrix entries)" % len(W.wits))
    for fname, (ff, meta, mod) in sorted(facts.items()):
        nin = meta["nin"]

        def cell_var(p_, off, ty, nin=nin):
            return "x%d_%d" % (p_, off // 8) if p_ < nin else None
        cons = poly.Constraints()
        try:
            paths = poly.evaluate(ff, cell_var, cons)
        except (poly.Unsupported, ir.Unresolved) as ex:
            rep.broke("%s: cannot abstract into the polynomial domain: %s" % (fname, ex))
            continue
        bad = None
        for path in paths:
            st = path["stores"]
            for c in range(meta["shape"]):
                a, b = st.get((nin, c * 8)), st.get((nin + 1, c * 8))
                if a is None or b is None:
                    bad = "cell %d is not written" % c
                    break
                if not poly.rf_equal(a, b, cons):
                    an, bn = a.normal(cons), b.normal(cons)
                    bad = "cell %d: library = %s ; definition = %s" % (c, poly.p_show(an.n), poly.p_show(bn.n))
                    break
            if bad:
                break
        rep.instance("DF", fname, meta["what"], ok=bad is None, sample={"paths": len(paths), "cells": meta["shape"]})
        if bad:
            rep.violation(Finding("DF", fname, meta["what"], "%s fails as a polynomial identity in the matrix entries: %s" % (meta["what"], bad), None, None, detail={"witness": fname}))
