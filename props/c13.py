"""C13 -- BSpline is a C^(K-1), local, left-equivariant curve (structural clauses Q1, Q2, S4, S5)."""
import astlib as A
import fe
import splines
import tables


def check(rep, tier, replay=None):
    rep.explanations.append(
        "C13: Q1 knot-continuity / suffix-sum identities of the constexpr cardinal B-spline tables (K=1..6) discharged by static_assert "
        "(necessary and, on vector spaces, sufficient for C^(K-1), locality and constant reproduction); M7 BSpline::operator() abstractly executed (engine M): window, clamping, basis in use, "
        "1/dt scaling and definedness of the optional outputs.")
    rep.trusted.update(["clang++-16 front end", "g++ 12 constant evaluator", "lib/pe.py"])
    rep.assumptions.append("left-equivariance and continuity on curved groups rest on C11 (cumulative evaluation), not decided here")
    kmax = 6 if tier == "quick" else 8
    tables.run(rep, "Q1", tables.knot_witnesses(1, kmax) + [w for w in tables.basis_witnesses(kmax) if "Bspline" in w.id],
               "cardinal B-spline tables: knot continuity up to order K-1, suffix sums, equality with Cox-de Boor definition, partition of unity", 20,
               second_compiler=(tier == "thorough"))
    d = fe.ast_dumps(["cspline_eval"])
    idx_cs = A.index(d["cspline_eval"])
    rep.unit("umbrella TU filtered BSpline / cspline_eval; 1 batched static_assert TU")
    # BSpline::operator(): window, clamping, basis in use, output scaling and definedness by abstract execution (engine M)
    import splinem
    splinem.check_bspline(rep, tier)
    import x1m
    x1m.check(rep, d["cspline_eval"])
