"""C09 -- minimize never makes things worse, terminates and reports why (structural clauses).

L.trace / L.strat (engine M, props/optm.py): minimize and the trust-region strategies are abstractly executed against scripted oracles and the
trace is checked against the contract.  L7: finite-difference step floor of dr_numerical (executor in props/c08.py).  N5: colwise_norm (shared with C10)."""
import astlib as A
import fe
from report import Finding


def check(rep, tier, replay=None):
    rep.explanations.append(
        "C09: minimize<D>(f, x, cb, opts) is abstractly executed (engine M) against scripted oracles -- opaque residuals / Jacobians / steps whose norms a script "
        "fixes per iteration -- together with the real CeresStrategy / DisneyStrategy code; every script of length <= max_iter over a small alphabet (good step, "
        "cost increase, 0/0 reductions, negative predicted reduction, Ftol-sized and Ptol-sized steps, zero residual) is explored and the trace is compared with the "
        "contract: callback sequence, argument updates, monotone cost of accepted points, gain ratio, iteration bound and status, final arguments.")
    rep.trusted.update(["clang++-16 front end", "lib/mach.py (abstract machine) with IEEE semantics for division by zero and NaN comparisons"])
    rep.assumptions.append("monotone cost additionally needs pred_red >= 0 for the true step, i.e. the step solver property C10; closeness to the minimiser is numerical and not decided")
    rep.unit("umbrella TU filtered minimize / Strategy / MinimizeOptions")
    import optm
    optm.check(rep, tier)
    import c10
    rep.rule("N5", "colwise_norm: sparse branch visits every outer vector, indexes by the iterator's column, squares, takes the root; dense branch is colwise().norm()", minimum=3)
    c10.check_n5(rep, fe.ast_dumps(["colwise_norm"]))

    # with numerical differentiation the Jacobian handed to the solver comes from dr_numerical: a collapsing finite-difference step gives a zero
    # column and a false Ftol/Ptol far from the minimiser (rule L7; the executor lives in props/c08.py)
    import diffm
    diffm.check_step_floor(rep, "L7")
