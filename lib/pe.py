"""Partial evaluation of scalar AST expressions (astlib tuples) over exact rationals.

Used to decide *identities between polynomial/affine index and scale expressions* by evaluating both sides at several
points of a symbolic environment (identity testing for low-degree polynomials), never to run library code."""
from fractions import Fraction

import astlib as A


class PEError(Exception):
    pass


def ev(e, env):
    key = A.show(e)
    if key in env:
        return Fraction(env[key])
    t = e[0]
    if t == "num":
        return Fraction(e[1])
    if t == "bool":
        return Fraction(int(e[1]))
    if t == "ref":
        if e[1] in env:
            return Fraction(env[e[1]])
        raise PEError("unknown name %s" % e[1])
    if t == "member":
        if e[2] in env:
            return Fraction(env[e[2]])
        raise PEError("unknown member %s" % e[2])
    if t == "sub" and len(e[2]) == 1:
        k = "%s[%d]" % (A.show(e[1]), int(ev(e[2][0], env)))
        if k in env:
            return Fraction(env[k])
        raise PEError("no table entry %s" % k)
    if t == "neg":
        return -ev(e[1], env)
    if t == "un" and e[1] == "!":
        return Fraction(int(not ev(e[2], env)))
    if t == "op":
        op = e[1]
        if op == "&&":
            return Fraction(int(bool(ev(e[2], env)) and bool(ev(e[3], env))))
        if op == "||":
            return Fraction(int(bool(ev(e[2], env)) or bool(ev(e[3], env))))
        a, b = ev(e[2], env), ev(e[3], env)
        if op == "+":
            return a + b
        if op == "-":
            return a - b
        if op == "*":
            return a * b
        if op == "/":
            if b == 0:
                raise PEError("division by zero")
            return a / b
        if op == "%":
            return Fraction(int(a) % int(b))
        if op in ("<", "<=", ">", ">=", "==", "!="):
            return Fraction(int({"<": a < b, "<=": a <= b, ">": a > b, ">=": a >= b, "==": a == b, "!=": a != b}[op]))
        raise PEError("operator %s" % op)
    if t == "cond":
        return ev(e[2], env) if ev(e[1], env) else ev(e[3], env)
    if t == "ctor" and len(e[2]) == 1:
        return ev(e[2][0], env)
    if t == "call":
        nm = (e[1] if isinstance(e[1], str) else "").split("::")[-1].split("<")[0]
        if nm in ("static_cast", "int64_t", "double", "S", "Scalar", "size_t") and len(e[2]) == 1:
            return ev(e[2][0], env)
        if nm == "min":
            return min(ev(a, env) for a in e[2])
        if nm == "max":
            return max(ev(a, env) for a in e[2])
        if nm == "clamp" and len(e[2]) == 3:
            v, lo, hi = (ev(a, env) for a in e[2])
            return max(lo, min(hi, v))
    if t == "other" and e[1] in ("CXXStaticCastExpr",):
        raise PEError("cast")
    raise PEError("cannot evaluate %s" % key[:60])
