"""AST rules on Spline / BSpline / cspline_eval_* shared by C12 and C13.

S1  lock-step of the five per-segment vectors of Spline (every size-changing site changes all five alike)
S2  index frame in Spline::crop (source vectors indexed relative to i0, result vectors not)
S3  ConstantVelocity scaling is degree-generic (factor * K == T for every K) + Bernstein identity sum_i Bcum_i(u) = K*u
S4  optional outputs (vel, acc) defined on every path to a return
S5  chain rule by dimension analysis (vel gets dU/dT, acc its square; u is a spline parameter)
S6  concat_global / concat_local copy segment i of `other` to slot N1+i for all five vectors, shifting end times by t_max
Q2  BSpline window and clamping (t_max formula, take(K+1) after drop(istar), clamped branches)
"""
import re
from fractions import Fraction

import astlib as A
import fe
import pe
from report import Finding

FIVE = ["m_end_t", "m_end_g", "m_Vs", "m_seg_T0", "m_seg_Del"]


def funcs(idx, qname):
    return [d for d in idx if d.kind in A.FUNCS and d.pattern and d.qname == qname and d.file and d.file.startswith(fe.INCLUDE)
            and A.body(d.node) is not None]


def one(rep, idx, qname):
    fs = funcs(idx, qname)
    if len(fs) != 1:
        rep.broke("expected exactly one definition of %s, found %d" % (qname, len(fs)))
        return None
    return fs[0]


def local_defs(node):
    out = {}
    for x in A.walk(node):
        if x.get("kind") == "VarDecl" and A.kids(x):
            ks = [k for k in A.kids(x)]
            out[x.get("name")] = A.to_expr(ks[-1])
    return out


def dep_names(e, locs, seen=None):
    """names an expression depends on, transitively through local definitions"""
    if seen is None:
        seen = set()
    for n in A.refs(e):
        if n in seen:
            continue
        seen.add(n)
        if n in locs:
            dep_names(locs[n], locs, seen)
    return seen


def member_of_this(e):
    """name if e is this->name / implicit member, else None"""
    if e[0] == "member" and e[1] == ("this",):
        return e[2]
    return None


def subscripts(node):
    """yield (base expr, index expr, ast node) for every a[i] in node"""
    for x in A.walk(node):
        k = x.get("kind")
        if k in ("ArraySubscriptExpr", "CXXOperatorCallExpr"):
            e = A.to_expr(x)
            if e[0] == "sub" and len(e[2]) == 1:
                yield e[1], e[2][0], x


# --------------------------------------------------------------------------------------------
def check_s1(rep, idx):
    rep.rule("S1", "Spline: every size-changing site changes all five per-segment vectors alike", minimum=7)
    # constructors
    ctors = funcs(idx, "Spline::Spline")
    if len(ctors) < 3:
        rep.broke("S1: %d Spline constructors with bodies found (>=3 confirmed by hand)" % len(ctors))
    for d in ctors:
        sizes = {}
        delegating = False
        for c in A.kids(d.node):
            if c.get("kind") == "CXXCtorInitializer":
                if "anyInit" not in c:
                    delegating = True
                    continue
                name = c.get("anyInit", {}).get("name")
                if name in FIVE:
                    init = A.kids(c)
                    e = A.to_expr(init[0]) if init else ("init", [])
                    n = None
                    if e[0] == "init":
                        n = len(e[1])
                    elif e[0] == "ctor":
                        inner = [a for a in e[2] if a != ("default",)]
                        if len(inner) == 1 and inner[0][0] == "init":
                            n = len(inner[0][1])
                        elif not inner:
                            n = 0
                    sizes[name] = n
        if delegating or (not sizes and any(c.get("kind") == "CXXCtorInitializer" for c in A.kids(d.node)) and
                          not any(c.get("anyInit", {}).get("name") in FIVE + ["m_g0"] for c in A.kids(d.node) if c.get("kind") == "CXXCtorInitializer")):
            rep.instance("S1", "Spline::Spline", "ctor@delegating", ok=True, nontrivial=False, sample={"file": fe.rel(d.file), "line": d.line})
            continue
        for x in A.walk(A.body(d.node)):
            if x.get("kind") in ("CallExpr", "CXXMemberCallExpr"):
                e = A.to_expr(x)
                if e[0] == "mcall" and e[2] == "resize" and member_of_this(e[1]) in FIVE and e[4] and e[4][0][0] == "num":
                    sizes[member_of_this(e[1])] = int(e[4][0][1])
        for m in FIVE:
            sizes.setdefault(m, 0)
        vals = set(sizes.values())
        ok = len(vals) == 1 and None not in vals
        rep.instance("S1", "Spline::Spline", "ctor@%s" % sorted(sizes.items()), ok=ok, sample={"file": fe.rel(d.file), "line": d.line, "sizes": sizes})
        if not ok:
            rep.violation(Finding("S1", "Spline::Spline", "ctor", "constructor leaves the per-segment vectors with different lengths: %s" % sizes, d.file, d.line))
    # members that resize / reserve
    for qn in ("Spline::reserve", "Spline::concat_global", "Spline::concat_local"):
        d = one(rep, idx, qn)
        if d is None:
            continue
        calls = {}
        for x in A.walk(A.body(d.node)):
            if x.get("kind") in ("CallExpr", "CXXMemberCallExpr"):
                e = A.to_expr(x)
                if e[0] == "mcall" and e[2] in ("resize", "reserve", "push_back", "emplace_back", "pop_back", "erase", "insert", "clear") and member_of_this(e[1]) in FIVE:
                    calls.setdefault((e[2], A.show(e[4])), set()).add(member_of_this(e[1]))
        ok = bool(calls) and all(ms == set(FIVE) for ms in calls.values())
        rep.instance("S1", qn, "resize-sites", ok=ok, sample={"file": fe.rel(d.file), "line": d.line, "sites": {str(k): sorted(v) for k, v in calls.items()}})
        if not ok:
            bad = {str(k): sorted(set(FIVE) - v) for k, v in calls.items() if v != set(FIVE)}
            rep.violation(Finding("S1", qn, "resize-sites", "size-changing call not applied to all five per-segment vectors; missing: %s" % (bad or "no size-changing call found"), d.file, d.line))
    # any other member function that changes a size of one of the five must be in the list above
    known = {"Spline::reserve", "Spline::concat_global", "Spline::concat_local", "Spline::Spline", "Spline::crop"}
    for d in idx:
        if d.kind in A.FUNCS and d.pattern and d.qname.startswith("Spline::") and d.qname not in known and A.body(d.node) is not None:
            for x in A.walk(A.body(d.node)):
                if x.get("kind") in ("CallExpr", "CXXMemberCallExpr"):
                    e = A.to_expr(x)
                    if e[0] == "mcall" and e[2] in ("resize", "push_back", "emplace_back", "pop_back", "erase", "insert", "clear") and member_of_this(e[1]) in FIVE:
                        f, l = A.loc(x)
                        rep.broke("S1: new size-changing site %s.%s in %s (%s:%s) is not covered by the lock-step rule" % (member_of_this(e[1]), e[2], d.qname, fe.rel(f), l))
    # crop: result assembled from five locals of equal constructed length
    d = one(rep, idx, "Spline::crop")
    if d is not None:
        locs = {}
        for x in A.walk(A.body(d.node)):
            if x.get("kind") == "VarDecl" and "vector" in x.get("type", {}).get("qualType", ""):
                ks = A.kids(x)
                sz = None
                if ks:
                    e = A.to_expr(ks[-1])
                    if e[0] in ("ctor",) and e[2]:
                        sz = A.show(e[2][0])
                    elif ks[-1].get("kind") == "ParenListExpr":
                        sz = A.show(A.to_expr(A.kids(ks[-1])[0]))
                    else:
                        sz = A.show(e)
                locs[x.get("name")] = sz
        assigned = {}
        for x in A.walk(A.body(d.node)):
            if x.get("kind") in ("BinaryOperator", "CXXOperatorCallExpr"):
                e = A.to_expr(x)
                if e[0] == "op" and e[1] == "=" and e[2][0] == "member" and e[2][1] == ("ref", "ret", e[2][1][2] if len(e[2][1]) > 2 else None) and e[2][2] in FIVE:
                    src = [n for n in A.refs(e[3]) if n in locs]
                    assigned[e[2][2]] = locs.get(src[0]) if src else None
        ok = set(assigned) == set(FIVE) and len(set(assigned.values())) == 1 and None not in assigned.values()
        rep.instance("S1", "Spline::crop", "result-assembly", ok=ok, sample={"file": fe.rel(d.file), "line": d.line, "lengths": assigned})
        if not ok:
            rep.violation(Finding("S1", "Spline::crop", "result-assembly", "cropped spline is not assembled from five vectors of one common length: %s" % assigned, d.file, d.line))


def check_s2(rep, idx):
    rep.rule("S2", "Spline::crop: source per-segment vectors indexed relative to i0, result vectors not; every source vector copied for every kept segment", minimum=15)
    d = one(rep, idx, "Spline::crop")
    if d is None:
        return
    b = A.body(d.node)
    locs = local_defs(b)
    if "i0" not in locs:
        rep.broke("S2: crop has no local i0 (first kept segment); rule needs re-confirmation")
        return
    result_vecs = {n for n, e in locs.items() if n in ("end_t", "end_g", "vs", "seg_T0", "seg_Del")}

    def has_call(e):
        if isinstance(e, tuple):
            if e and e[0] in ("call", "mcall"):
                return True
            return any(has_call(x) for x in e[1:])
        if isinstance(e, list):
            return any(has_call(x) for x in e)
        return False
    # locals defined by pure arithmetic are substituted; locals computed by calls (segment counts, lookups) are opaque symbols
    arith = {k: v for k, v in locs.items() if k != "i0" and not has_call(v)}

    def slope(ix):
        """d(index)/d(i0) with every other symbol held fixed; None if not evaluable"""
        e = subst(ix, arith)
        names = sorted(n for n in A.refs(e) if n != "i0")
        vals = []
        for a in (3, 4):
            env = {n: 11 + 7 * k for k, n in enumerate(names)}
            env["i0"] = a
            try:
                vals.append(pe.ev(e, env))
            except pe.PEError:
                return None
        return vals[1] - vals[0]

    def subst(e, m, depth=0):
        if depth > 20 or not isinstance(e, tuple):
            return e
        if e[0] == "ref" and e[1] in m:
            return subst(m[e[1]], m, depth + 1)
        return tuple(subst(x, m, depth) if isinstance(x, tuple) else ([subst(y, m, depth) for y in x] if isinstance(x, list) else x) for x in e)

    for base, ix, node in subscripts(b):
        f, l = A.loc(node)
        m = member_of_this(base)
        if m in FIVE:
            sl = slope(ix)
            if sl is None:
                rep.broke("S2: cannot evaluate index `%s` of %s in crop" % (A.show(ix), m))
                continue
            ok = sl == 1
            rep.instance("S2", "Spline::crop", "%s[%s]" % (m, A.show(ix)), ok=ok, sample={"file": fe.rel(f), "line": l, "frame": "source", "d_index/d_i0": str(sl)})
            if not ok:
                rep.violation(Finding("S2", "Spline::crop", "%s[%s]" % (m, A.show(ix)),
                                      "source vector %s is indexed with `%s`, which does not move with the first kept segment i0 (d index/d i0 = %s): the wrong "
                                      "segment is read whenever the crop starts in a later segment" % (m, A.show(ix), sl), f, l))
        elif base[0] == "ref" and base[1] in result_vecs:
            sl = slope(ix)
            if sl is None:
                rep.broke("S2: cannot evaluate index `%s` of %s in crop" % (A.show(ix), base[1]))
                continue
            ok = sl == 0
            rep.instance("S2", "Spline::crop", "%s[%s]" % (base[1], A.show(ix)), ok=ok, sample={"file": fe.rel(f), "line": l, "frame": "result"})
            if not ok:
                rep.violation(Finding("S2", "Spline::crop", "%s[%s]" % (base[1], A.show(ix)),
                                      "result vector %s is indexed in the source frame (`%s` moves with i0)" % (base[1], A.show(ix)), f, l))
    # coverage: every per-segment vector of the source is copied for *every* kept segment (a loop over i in [0, Nseg) reading member[i0 + i])
    copied = {}
    for loop in [x for x in A.walk(b) if x.get("kind") == "ForStmt"]:
        ks = A.kids(loop)
        var = next((v.get("name") for v in A.kids(ks[0]) if v.get("kind") == "VarDecl"), None) if ks[0].get("kind") == "DeclStmt" else None
        init = next((A.to_expr(A.kids(v)[-1]) for v in A.kids(ks[0]) if v.get("kind") == "VarDecl" and A.kids(v)), None) if var else None
        cnd = A.to_expr(ks[2]) if ks[2].get("kind") else None
        if var is None or init != ("num", 0) or cnd is None:
            continue
        full = (cnd[0] == "op" and cnd[1] in ("<", "!=") and cnd[2][0] == "ref" and cnd[2][1] == var and cnd[3][0] == "ref" and cnd[3][1] == "Nseg")
        if not full:
            continue
        def reads(x_):
            """source members read as member[i0 + i] on every evaluation of the expression (both arms of a conditional)"""
            out = set()
            if isinstance(x_, tuple):
                if x_ and x_[0] == "cond":
                    g_ = interior(x_[1])
                    if g_ is not None:
                        return reads(x_[1]) | reads(x_[2] if g_ else x_[3])
                    return reads(x_[1]) | (reads(x_[2]) & reads(x_[3]))
                if x_ and x_[0] == "sub" and member_of_this(x_[1]) in FIVE and len(x_[2]) == 1:
                    try:
                        if all(pe.ev(subst(x_[2][0], {k_: v_ for k_, v_ in arith.items() if k_ != var}), {"i0": a_, var: c_}) == a_ + c_ for a_, c_ in ((3, 2), (5, 7))):
                            out.add(member_of_this(x_[1]))
                    except pe.PEError:
                        pass
                for z in x_[1:]:
                    out |= reads(z)
            elif isinstance(x_, list):
                for z in x_:
                    out |= reads(z)
            return out

        def interior(c_):
            """truth of a condition for a generic interior segment (0 < i < Nseg - 1), None when it is not a test on the loop index"""
            try:
                return bool(pe.ev(c_, {var: 5, "Nseg": 11}))
            except pe.PEError:
                return None

        def copies(st):
            """{source member: result vectors} copied for a generic interior segment on every path through the statement"""
            k_ = st.get("kind")
            if k_ == "CompoundStmt":
                out = {}
                for c_ in A.kids(st):
                    for m_, rs in copies(c_).items():
                        out.setdefault(m_, set()).update(rs)
                return out
            if k_ == "IfStmt":
                kk = A.kids(st)
                g_ = interior(A.to_expr(kk[0]))
                if g_ is True:
                    return copies(kk[1])
                if g_ is False:
                    return copies(kk[2]) if len(kk) > 2 else {}
                if len(kk) < 3:
                    return {}
                t_, e_ = copies(kk[1]), copies(kk[2])
                return {m_: t_[m_] | e_[m_] for m_ in t_ if m_ in e_}
            if k_ in ("BinaryOperator", "CXXOperatorCallExpr", "ExprWithCleanups"):
                e = A.to_expr(st)
                if e[0] == "op" and e[1] == "=" and e[2][0] == "sub" and e[2][1][0] == "ref" and e[2][1][1] in result_vecs and len(e[2][2]) == 1 \
                   and e[2][2][0][0] == "ref" and e[2][2][0][1] == var:
                    return {m_: {e[2][1][1]} for m_ in reads(e[3])}
                if e[0] == "op" and e[1] == ",":
                    out = copies_expr(e[2])
                    for m_, rs in copies_expr(e[3]).items():
                        out.setdefault(m_, set()).update(rs)
                    return out
            return {}

        def copies_expr(e):
            if e[0] == "op" and e[1] == "=" and e[2][0] == "sub" and e[2][1][0] == "ref" and e[2][1][1] in result_vecs and len(e[2][2]) == 1 \
               and e[2][2][0][0] == "ref" and e[2][2][0][1] == var:
                return {m_: {e[2][1][1]} for m_ in reads(e[3])}
            return {}
        for m_, rs in copies(ks[4]).items():
            copied.setdefault(m_, set()).update(rs)
    for m_ in FIVE:
        okc = bool(copied.get(m_))
        if not okc:
            # a range constructor / std::copy from the member is a different idiom this rule does not interpret
            other = [n for n, e in locs.items() if n in result_vecs and m_ in A.show(e)]
            if other or any(m_ in A.ntext(x) and "copy" in A.ntext(x) for x in A.walk(b) if x.get("kind") == "CallExpr"):
                rep.broke("S2: %s is transferred to the cropped spline by an idiom other than the per-segment loop; re-confirm the coverage rule" % m_)
                continue
        rep.instance("S2", "Spline::crop", "copies %s for every kept segment" % m_, ok=okc, sample={"file": fe.rel(d.file), "line": d.line, "into": sorted(copied.get(m_, []))})
        if not okc:
            rep.violation(Finding("S2", "Spline::crop", "copies %s for every kept segment" % m_,
                                  "no loop over all kept segments copies %s[i0 + i] into the result: interior segments of the cropped spline do not inherit "
                                  "this per-segment state from the source" % m_, d.file, d.line))
    # knot times bracketing the first and the last kept source segment, checked against a symbolic knot table
    tt = {"tta": [], "ttb": []}
    for x in A.walk(b):
        if x.get("kind") == "VarDecl" and x.get("name") in tt and A.kids(x):
            tt[x.get("name")].append((A.to_expr(A.kids(x)[-1]), x))
    if len(tt["tta"]) != 2 or len(tt["ttb"]) != 2:
        rep.broke("S2: expected two (tta, ttb) pairs in crop (first and last kept segment), found %d/%d" % (len(tt["tta"]), len(tt["ttb"])))
        return
    knots = [2, 5, 9, 14, 20]
    table = {"this.m_end_t[%d]" % k: v for k, v in enumerate(knots)}
    for which, (ea, xa), (eb, xb) in (("first", tt["tta"][0], tt["ttb"][0]), ("last", tt["tta"][1], tt["ttb"][1])):
        bad = None
        try:
            for i0 in (0, 1, 2):
                for nseg in (1, 2, 3):
                    if i0 + nseg > len(knots):
                        continue
                    ta = Fraction(knots[i0] * 2 - 1, 2) if i0 else Fraction(1, 2)
                    env = dict(table, i0=i0, Nseg=nseg, ta=ta)
                    k = i0 if which == "first" else i0 + nseg - 1          # source index of the segment being trimmed
                    start = 0 if k == 0 else knots[k - 1]
                    want_a = start if (which == "first" or nseg > 1) else ta   # single kept segment: already trimmed to start at ta
                    want_b = knots[k]
                    got_a, got_b = pe.ev(ea, env), pe.ev(eb, env)
                    if (got_a, got_b) != (want_a, want_b) and bad is None:
                        bad = (i0, nseg, got_a, got_b, want_a, want_b)
        except pe.PEError as ex:
            rep.broke("S2: cannot evaluate the %s-segment knot times in crop: %s" % (which, ex))
            continue
        f, l = A.loc(xa)
        rep.instance("S2", "Spline::crop", "%s-segment-knots" % which, ok=bad is None,
                     sample={"file": fe.rel(f), "line": l, "tta": A.show(ea), "ttb": A.show(eb)})
        if bad:
            rep.violation(Finding("S2", "Spline::crop", "%s-segment-knots" % which,
                                  "for a crop starting in source segment %d keeping %d segment(s), the %s kept segment is taken to span [%s, %s] "
                                  "but it spans [%s, %s] in the source spline (tta = `%s`, ttb = `%s`)"
                                  % (bad[0], bad[1], which, bad[2], bad[3], bad[4], bad[5], A.show(ea), A.show(eb)), f, l))


# --------------------------------------------------------------------------------------------
def check_s9(rep, idx):
    """S9: a one-segment Spline built from control velocities stores as its end pose  g0 * (the segment evaluated at u = 1), by the same
    cumulative evaluator and basis table operator() uses -- so end(), evaluation beyond t_max and concatenation agree with the curve;
    FixedCubic's middle coefficient makes exp(V0) exp(V1) exp(V2) = inverse(ga) * gb in the free group."""
    import c14
    rep.rule("S9", "Spline constructors store end pose = g0 * segment(u = 1); FixedCubic reaches gb in the free group", minimum=3)
    ctors = [d for d in idx if d.kind == "CXXConstructorDecl" and d.pattern and d.qname == "Spline::Spline" and d.file and d.file.startswith(fe.INCLUDE)
             and A.body(d.node) is not None]
    n_checked = 0
    for d in ctors:
        for x in A.walk(A.body(d.node)):
            if x.get("kind") not in ("BinaryOperator", "CXXOperatorCallExpr"):
                continue
            e = A.to_expr(x)
            if not (e[0] == "op" and e[1] == "=" and e[2][0] == "sub" and member_of_this(e[2][1]) == "m_end_g"):
                continue
            rhs = e[3]
            if member_of_this(rhs) == "m_g0":
                continue          # K == 0: the curve is constant
            f, l = A.loc(x)
            verdict, why = None, "unrecognised end-pose expression %s" % A.show(rhs)[:70]
            if rhs[0] == "call" and str(rhs[1]).split("::")[-1].split("<")[0] == "composition" and len(rhs[2]) == 2 and member_of_this(rhs[2][0]) == "m_g0":
                seg = rhs[2][1]
                nm = str(seg[1]).split("::")[-1].split("<")[0] if seg[0] == "call" else None
                if nm == "cspline_eval_vs" and len(seg[2]) >= 3:
                    a0, a1, a2 = seg[2][:3]
                    cols = (a0[0] == "mcall" and a0[2] == "colwise" and a0[1][0] == "sub" and member_of_this(a0[1][1]) == "m_Vs" and a0[1][2] == [("num", 0)])
                    basis = a1[0] == "ref" and a1[1] == "kMappedBasisFunction"
                    try:
                        at_one = pe.ev(a2, {}) == 1
                    except pe.PEError:
                        at_one = False
                    if cols and basis:
                        verdict, why = (True, "") if at_one else (False, "the segment is evaluated at u = %s, not at its end u = 1" % A.show(a2))
                    else:
                        why = "cspline_eval_vs is called with (%s, %s, ..)" % (A.show(a0)[:30], A.show(a1)[:30])
                elif nm == "exp" and len(seg[2]) == 1 and "sum" in A.show(seg[2][0]):
                    verdict, why = False, ("the end pose is g0 * exp(%s): the exponential of the *sum* of the control velocities equals the product of "
                                           "their exponentials only on commutative groups" % A.show(seg[2][0])[:40])
            n_checked += 1
            if verdict is None:
                rep.broke("S9: %s (%s:%s)" % (why, fe.rel(f), l))
                continue
            rep.instance("S9", "Spline::Spline", "end pose @%s" % l, ok=verdict, sample={"file": fe.rel(f), "line": l})
            if not verdict:
                rep.violation(Finding("S9", "Spline::Spline", "end pose", why, f, l))
    if n_checked < 2:
        rep.broke("S9: found %d end-pose assignments in Spline constructors, expected 2" % n_checked)
    # FixedCubic
    fc = funcs(idx, "Spline::FixedCubic")
    if len(fc) != 1:
        rep.broke("S9: Spline::FixedCubic not found")
        return
    d = fc[0]
    ps = [p.get("name") for p in A.params(d.node)]      # gb, va, vb, T, ga
    if len(ps) != 5:
        rep.broke("S9: FixedCubic has %d parameters" % len(ps))
        return
    gb, ga = ps[0], ps[4]
    subst = {}

    def col_index(e):
        sign = 1
        while e[0] == "neg":
            sign, e = -sign, e[1]
        if e[0] == "mcall" and e[2] == "col" and len(e[4]) == 1 and e[4][0][0] == "num":
            return sign, int(e[4][0][1])
        raise c14.FGErr("tangent argument %s" % A.show(e)[:40])

    def gv(e):
        if e[0] == "ref":
            return [(e[1], 1)]
        if e[0] == "call":
            f = str(e[1]).split("::")[-1].split("<")[0]
            if f == "composition":
                out = []
                for a in e[2]:
                    out += gv(a)
                return c14.fg_reduce(out)
            if f == "inverse" and len(e[2]) == 1:
                return c14.fg_inv(gv(e[2][0]))
            if f == "exp" and len(e[2]) == 1:
                sg, k = col_index(e[2][0])
                return [("E%d" % k, sg)]
        raise c14.FGErr("group expression %s" % A.show(e)[:50])
    try:
        for x in A.walk(A.body(d.node)):
            if x.get("kind") in ("BinaryOperator", "CXXOperatorCallExpr"):
                e = A.to_expr(x)
                if e[0] == "op" and e[1] == "=" and e[3][0] == "call" and str(e[3][1]).split("::")[-1].split("<")[0] == "log" and len(e[3][2]) == 1:
                    sg, k = col_index(e[2])
                    w = gv(e[3][2][0])
                    subst["E%d" % k] = w if sg == 1 else c14.fg_inv(w)
        prod = []
        for k in range(3):
            prod += subst.get("E%d" % k, [("E%d" % k, 1)])
        prod = c14.fg_reduce(prod)
    except c14.FGErr as ex:
        rep.broke("S9: cannot interpret FixedCubic: %s" % ex)
        return
    ok = prod == [(ga, -1), (gb, 1)]
    show = " ".join("%s%s" % (s_, "" if e_ == 1 else "^-1") for s_, e_ in prod) or "1"
    rep.instance("S9", "Spline::FixedCubic", "reaches gb", ok=ok, sample={"file": fe.rel(d.file), "line": d.line, "segment_product": show})
    if not ok:
        rep.violation(Finding("S9", "Spline::FixedCubic", "reaches gb",
                              "exp(V0) exp(V1) exp(V2) reduces to  %s  in the free group; the segment ends at gb only if it is inverse(%s) * %s" % (show, ga, gb), d.file, d.line))


# --------------------------------------------------------------------------------------------
def check_s10(rep, idx):
    """S10: Spline::make_local() moves the *whole* curve: with stored poses g0 = G, end_g = [G a, G a b] (global frame) the state afterwards
    must be g0 = 1, end_g = [a, a b] -- decided by abstract execution of the body in the free group."""
    import c14
    rep.rule("S10", "Spline::make_local re-expresses every stored pose (m_g0 and each m_end_g[i]) relative to the old start pose", minimum=1)
    fns = funcs(idx, "Spline::make_local")
    if len(fns) != 1:
        rep.broke("S10: Spline::make_local not found")
        return
    d = fns[0]
    state = {"m_g0": [("G", 1)], "m_end_g": [[("G", 1), ("a", 1)], [("G", 1), ("a", 1), ("b", 1)]]}
    loc = {}

    def gv(e, it=None):
        if member_of_this(e) == "m_g0":
            return list(state["m_g0"])
        if e[0] == "ref":
            if it is not None and e[1] == it[0]:
                return list(state["m_end_g"][it[1]])
            if e[1] in loc:
                return list(loc[e[1]])
            raise c14.FGErr("unknown group variable %s" % e[1])
        if e[0] == "sub" and member_of_this(e[1]) == "m_end_g" and len(e[2]) == 1:
            if it is not None and e[2][0][0] == "ref" and e[2][0][1] == it[0]:
                return list(state["m_end_g"][it[1]])
            if e[2][0][0] == "num":
                return list(state["m_end_g"][int(e[2][0][1])])
        if e[0] == "call":
            f = str(e[1]).split("::")[-1].split("<")[0]
            if f == "Identity":
                return []
            if f == "composition":
                out = []
                for a in e[2]:
                    out += gv(a, it)
                return c14.fg_reduce(out)
            if f == "inverse" and len(e[2]) == 1:
                return c14.fg_inv(gv(e[2][0], it))
        if e[0] == "mcall" and e[2] == "inverse" and not e[4]:
            return c14.fg_inv(gv(e[1], it))
        if e[0] == "op" and e[1] == "*":
            return c14.fg_reduce(gv(e[2], it) + gv(e[3], it))
        if e[0] == "ctor" and len(e[2]) == 1:
            return gv(e[2][0], it)
        raise c14.FGErr("group expression %s" % A.show(e)[:50])

    def assign(e, it=None):
        tgt, rhs = e[2], e[3]
        v = gv(rhs, it)
        if member_of_this(tgt) == "m_g0":
            state["m_g0"] = v
        elif it is not None and ((tgt[0] == "ref" and tgt[1] == it[0]) or (tgt[0] == "sub" and member_of_this(tgt[1]) == "m_end_g" and tgt[2][0][:2] == ("ref", it[0]))):
            state["m_end_g"][it[1]] = v
        elif tgt[0] == "ref":
            loc[tgt[1]] = v
        else:
            raise c14.FGErr("assignment target %s" % A.show(tgt)[:40])

    def run(stmts, it=None):
        for st in stmts:
            k = st.get("kind")
            if k == "DeclStmt":
                for v in A.kids(st):
                    if v.get("kind") == "VarDecl" and A.kids(v):
                        try:
                            loc[v.get("name")] = gv(A.to_expr(A.kids(v)[-1]), it)
                        except c14.FGErr:
                            pass          # counters, sizes
            elif k in ("BinaryOperator", "CXXOperatorCallExpr", "ExprWithCleanups"):
                e = A.to_expr(st)
                if e[0] == "op" and e[1] == "=":
                    assign(e, it)
                else:
                    raise c14.FGErr("statement %s" % A.show(e)[:50])
            elif k == "CompoundStmt":
                run(A.kids(st), it)
            elif k == "CXXForRangeStmt":
                ks = A.kids(st)
                rng = next((A.to_expr(A.kids(v)[-1]) for c in ks if c.get("kind") == "DeclStmt" for v in A.kids(c)
                            if (v.get("name") or "").startswith("__range") and A.kids(v)), None)
                var = next((v.get("name") for c in ks if c.get("kind") == "DeclStmt" for v in A.kids(c)
                            if v.get("kind") == "VarDecl" and not (v.get("name") or "").startswith("__")), None)
                if rng is None or member_of_this(rng) != "m_end_g" or var is None:
                    raise c14.FGErr("range-for over %s" % (A.show(rng)[:30] if rng else "?"))
                for i in range(len(state["m_end_g"])):
                    run([ks[-1]], (var, i))
            elif k == "ForStmt":
                ks = A.kids(st)
                var = next((v.get("name") for v in A.kids(ks[0]) if v.get("kind") == "VarDecl"), None) if ks[0].get("kind") == "DeclStmt" else None
                cnd = A.ntext(ks[2])
                if var is None or "m_end_g.size()" not in cnd and "size()" not in cnd:
                    raise c14.FGErr("loop %s" % cnd[:40])
                for i in range(len(state["m_end_g"])):
                    run([ks[4]], (var, i))
            elif k in ("NullStmt",):
                pass
            else:
                raise c14.FGErr("statement kind %s" % k)
    try:
        run(A.kids(A.body(d.node)))
    except c14.FGErr as ex:
        rep.broke("S10: cannot interpret Spline::make_local: %s" % ex)
        return
    want = {"m_g0": [], "m_end_g": [[("a", 1)], [("a", 1), ("b", 1)]]}
    ok = state == want

    def show(w):
        return " ".join("%s%s" % (s_, "" if e_ == 1 else "^-1") for s_, e_ in w) or "1"
    rep.instance("S10", "Spline::make_local", "frame", ok=ok, sample={"file": fe.rel(d.file), "line": d.line, "g0": show(state["m_g0"]), "end_g": [show(w) for w in state["m_end_g"]]})
    if not ok:
        rep.violation(Finding("S10", "Spline::make_local", "frame",
                              "for a two-segment spline with start pose G and knot poses [G a, G a b], make_local() leaves start = %s, knot poses = [%s]; "
                              "moving the start to the identity requires start = 1, knot poses = [a, a b] (every stored pose multiplied by G^-1 from the left), "
                              "otherwise the curve jumps at the first knot and end() is wrong" % (show(state["m_g0"]), ", ".join(show(w) for w in state["m_end_g"])),
                              d.file, d.line))


def pe_frac(e, env):
    t = e[0]
    if t == "num":
        return Fraction(e[1])
    if t == "ref":
        if e[1] in env:
            return Fraction(env[e[1]])
        raise KeyError(e[1])
    if t == "op":
        a, b = pe_frac(e[2], env), pe_frac(e[3], env)
        return {"+": a + b, "-": a - b, "*": a * b, "/": (a / b) if b != 0 else None}[e[1]]
    if t == "neg":
        return -pe_frac(e[1], env)
    if t == "ctor" and len(e[2]) == 1:
        return pe_frac(e[2][0], env)
    raise KeyError(A.show(e))


def check_s3(rep, idx):
    rep.rule("S3", "ConstantVelocity: scalar factor on the body velocity is T/K for every degree", minimum=2)
    d = one(rep, idx, "Spline::ConstantVelocity")
    if d is None:
        return
    found = False
    for x in A.walk(A.body(d.node)):
        if x.get("kind") == "VarDecl" and x.get("name") == "V" and A.kids(x):
            e = A.to_expr(A.kids(x)[-1])
            f, l = A.loc(x)
            # V = <scalar factor> * v.replicate(1, K)
            fac = None
            if e[0] == "op" and e[1] == "*":
                for side, other in ((e[2], e[3]), (e[3], e[2])):
                    if other[0] == "mcall" and other[2] == "replicate":
                        fac = side
                        rep_args = other[4]
            if fac is None:
                rep.broke("S3: control velocities in ConstantVelocity are not `<factor> * v.replicate(1, K)` any more (%s)" % A.show(e)[:80])
                return
            found = True
            bad = []
            for K in (1, 2, 3, 4, 5, 7):
                try:
                    val = pe_frac(fac, {"T": 11, "K": K})
                except KeyError as ex:
                    rep.broke("S3: cannot evaluate factor `%s` (%s)" % (A.show(fac), ex))
                    return
                if val is None or val * K != 11:
                    bad.append(K)
            ok = not bad and A.show(rep_args[1]) == "K"
            rep.instance("S3", "Spline::ConstantVelocity", "factor", ok=ok, sample={"file": fe.rel(f), "line": l, "factor": A.show(fac), "columns": A.show(rep_args[1])})
            if not ok:
                rep.violation(Finding("S3", "Spline::ConstantVelocity", "factor",
                                      "control velocities are scaled by `%s`; since sum_{i=1..K} Bcum_i(u) = K*u for the Bernstein cumulative basis the "
                                      "curve is ga*exp(t*v) only if the factor is T/K -- fails for K in %s" % (A.show(fac), bad), f, l))
    if not found:
        rep.broke("S3: local V not found in ConstantVelocity")
    d2 = one(rep, idx, "Spline::ConstantVelocityGoal")
    if d2 is not None:
        ok = False
        for x in A.walk(A.body(d2.node)):
            if x.get("kind") == "ReturnStmt":
                e = A.to_expr(A.kids(x)[0])
                if e[0] in ("call", "mcall"):
                    nm = e[1] if e[0] == "call" else e[2]
                    args = e[2] if e[0] == "call" else e[4]
                    if str(nm).split("::")[-1] == "ConstantVelocity" and len(args) == 3:
                        a0 = args[0]
                        ok = (a0[0] == "op" and a0[1] == "/" and a0[3][0] == "ref" and a0[3][1] == "T" and a0[2][0] == "op" and a0[2][1] == "-"
                              and a0[2][2][0] == "ref" and a0[2][2][1] == "gb" and a0[2][3][0] == "ref" and a0[2][3][1] == "ga"
                              and args[1][0] == "ref" and args[1][1] == "T" and args[2][0] == "ref" and args[2][1] == "ga")
        rep.instance("S3", "Spline::ConstantVelocityGoal", "delegates", ok=ok, sample={"file": fe.rel(d2.file), "line": d2.line})
        if not ok:
            rep.violation(Finding("S3", "Spline::ConstantVelocityGoal", "delegates", "ConstantVelocityGoal is not ConstantVelocity((gb - ga) / T, T, ga)", d2.file, d2.line))


# ---- S4: optional outputs defined on all paths -------------------------------------------------

def defines(stmt, outs, definers):
    """set of optional outputs unconditionally defined by one statement"""
    k = stmt.get("kind")
    got = set()
    if k == "IfStmt":
        ks = A.kids(stmt)
        c = A.to_expr(ks[0])
        # if (x.has_value()) { x.value().setZero(); }   /  x->setZero()
        if c[0] == "mcall" and c[2] == "has_value" and c[1][0] == "ref" and c[1][1] in outs and len(ks) == 2:
            t = re.sub(r"\s", "", A.text(ks[1]))
            if re.search(re.escape(c[1][1]) + r"(\.value\(\)\.|->)setZero\(\)", t):
                got.add(c[1][1])
    for x in A.walk(stmt):
        if x.get("kind") in ("CallExpr",):
            cn = A.callee_name(A.kids(x)[0]) or ""
            base = cn.split("::")[-1].split("<")[0]
            if base in definers and k != "IfStmt":
                for a in A.kids(x)[1:]:
                    e = A.to_expr(a)
                    if e[0] == "ref" and e[1] in outs:
                        got.add(e[1])
    return got


def flow(stmt, defined, outs, definers, report):
    """returns the set defined after stmt on the fall-through path, or None if no fall-through."""
    k = stmt.get("kind")
    if k == "CompoundStmt":
        cur = set(defined)
        for s in A.kids(stmt):
            cur = flow(s, cur, outs, definers, report)
            if cur is None:
                return None
        return cur
    if k == "ReturnStmt":
        d = set(defined) | defines(stmt, outs, definers)
        report(stmt, d)
        return None
    if k == "IfStmt":
        ks = A.kids(stmt)
        unc = defines(stmt, outs, definers)
        if unc:
            return set(defined) | unc
        thn = flow(ks[1], set(defined), outs, definers, report)
        els = flow(ks[2], set(defined), outs, definers, report) if len(ks) > 2 else set(defined)
        if thn is None and els is None:
            return None
        if thn is None:
            return els
        if els is None:
            return thn
        return thn & els
    if k in ("ForStmt", "CXXForRangeStmt", "WhileStmt"):
        return set(defined)
    return set(defined) | defines(stmt, outs, definers)


def check_s4(rep, idx, idx_cs, which):
    rep.rule("S4", "optional outputs vel/acc are defined on every path to a return", minimum=2)
    # callee: cspline_eval_vs zeroes its outputs unconditionally before use
    definers = set()
    for d in funcs(idx_cs, "cspline_eval_vs"):
        b = A.body(d.node)
        top = set()
        for s in A.kids(b):
            top |= defines(s, {"vel", "acc", "jer"}, set())
        ok = {"vel", "acc"} <= top
        rep.instance("S4", "cspline_eval_vs", "zeroes-outputs", ok=ok, sample={"file": fe.rel(d.file), "line": d.line, "defined": sorted(top)})
        if ok:
            definers.add("cspline_eval_vs")
        else:
            rep.violation(Finding("S4", "cspline_eval_vs", "zeroes-outputs", "optional outputs are not zero-initialised unconditionally (defined: %s)" % sorted(top), d.file, d.line))
    for d in funcs(idx_cs, "cspline_eval_gs"):
        t = re.sub(r"\s", "", A.text(A.body(d.node)))
        if "cspline_eval_vs<K,G>(vs,Bcum,u,vel,acc,jer)" in t and "cspline_eval_vs" in definers:
            definers.add("cspline_eval_gs")
    for qn in which:
        d = one(rep, idx, qn)
        if d is None:
            continue
        bad = []

        def report(ret, dset, bad=bad):
            miss = {"vel", "acc"} - dset
            if miss:
                bad.append((ret, miss))
        flow(A.body(d.node), set(), {"vel", "acc"}, definers, report)
        nret = len([x for x in A.walk(A.body(d.node)) if x.get("kind") == "ReturnStmt"])
        rep.instance("S4", qn, "returns=%d" % nret, ok=not bad, sample={"file": fe.rel(d.file), "line": d.line, "returns": nret})
        for ret, miss in bad:
            f, l = A.loc(ret)
            rep.violation(Finding("S4", qn, "return@%s" % sorted(miss), "optional output(s) %s may be left unset on the path to this return" % sorted(miss), f, l))


# ---- S5: dimension analysis ---------------------------------------------------------------------

class DimErr(Exception):
    pass


POLY = "poly"   # literal: takes the dimension of its context in + - compare


def dim_of(e, env, locs, depth=0):
    """(T exponent, U exponent) or POLY"""
    if depth > 30:
        raise DimErr("too deep")
    t = e[0]
    if t == "num":
        return POLY
    if t == "ref":
        if e[1] in env:
            return env[e[1]]
        if e[1] in locs:
            return dim_of(locs[e[1]], env, locs, depth + 1)
        raise DimErr("no dimension for %s" % e[1])
    if t == "member":
        key = e[2]
        if key in env:
            return env[key]
        raise DimErr("no dimension for member %s" % key)
    if t == "sub":
        return dim_of(e[1], env, locs, depth + 1)
    if t == "mcall":
        if e[2] in ("value",) :
            return dim_of(e[1], env, locs, depth + 1)
        if e[2] in ("t_max", "t_min"):
            return (1, 0)
        if e[2] in ("size",):
            return (0, 0)
        raise DimErr("no dimension for call .%s()" % e[2])
    if t == "call":
        nm = (e[1] if isinstance(e[1], str) else "") .split("::")[-1].split("<")[0]
        if nm in ("clamp", "min", "max"):
            ds = [dim_of(a, env, locs, depth + 1) for a in e[2]]
            ds = [d for d in ds if d != POLY]
            if not ds:
                return POLY
            if len(set(ds)) != 1:
                raise DimErr("mixed dimensions in %s" % nm)
            return ds[0]
        if nm in ("static_cast", "S", "double", "Scalar"):
            return dim_of(e[2][0], env, locs, depth + 1)
        raise DimErr("no dimension for call %s" % nm)
    if t == "ctor":
        if len(e[2]) == 1:
            return dim_of(e[2][0], env, locs, depth + 1)
        raise DimErr("ctor")
    if t == "other" and e[1] in ("CXXStaticCastExpr",):
        raise DimErr("cast")
    if t == "neg":
        return dim_of(e[1], env, locs, depth + 1)
    if t == "cond":
        a, b = dim_of(e[2], env, locs, depth + 1), dim_of(e[3], env, locs, depth + 1)
        if a == POLY:
            return b
        if b == POLY or a == b:
            return a
        raise DimErr("mixed dimensions in ?:")
    if t == "op":
        a, b = dim_of(e[2], env, locs, depth + 1), dim_of(e[3], env, locs, depth + 1)
        if e[1] in ("+", "-"):
            if a == POLY:
                return b
            if b == POLY or a == b:
                return a
            raise DimErr("adding %s and %s in %s" % (a, b, A.show(e)[:60]))
        za = (0, 0) if a == POLY else a
        zb = (0, 0) if b == POLY else b
        if e[1] == "*":
            return (za[0] + zb[0], za[1] + zb[1])
        if e[1] == "/":
            return (za[0] - zb[0], za[1] - zb[1])
    raise DimErr("cannot type %s" % A.show(e)[:60])


def fmt(d):
    if d == POLY:
        return "1"
    return "T^%d U^%d" % d


def scale_sites(body, name):
    """compound assignments `name.value() op= E` / `*name op= E`"""
    out = []
    for x in A.walk(body):
        if x.get("kind") in ("CompoundAssignOperator", "CXXOperatorCallExpr", "BinaryOperator"):
            e = A.to_expr(x)
            if e[0] == "op" and e[1] in ("*=", "/=") and name in A.refs(e[2]) and e[2][0] in ("mcall", "un"):
                out.append((e[1], e[3], x))
    return out


def check_s5_spline(rep, idx):
    rep.rule("S5", "chain rule: velocity scaled by dU/dT, acceleration by its square; u is a spline parameter", minimum=3)
    d = one(rep, idx, "Spline::operator()")
    if d is None:
        return
    b = A.body(d.node)
    locs = local_defs(b)
    env = {"t": (1, 0), "m_end_t": (1, 0), "m_seg_T0": (0, 1), "m_seg_Del": (0, 1)}
    _scale_rule(rep, "Spline::operator()", b, locs, env, vel_dim=(-1, 1), acc_dim=(-2, 2))
    # u must be a spline parameter [U]
    if "u" in locs:
        try:
            du = dim_of(locs["u"], env, locs)
            ok = du == (0, 1)
            msg = fmt(du)
        except DimErr as ex:
            ok, msg = None, str(ex)
        f, l = d.file, d.line
        if ok is None:
            rep.broke("S5: cannot type `u` in Spline::operator(): %s" % msg)
        else:
            rep.instance("S5", "Spline::operator()", "u", ok=ok, sample={"expr": A.show(locs["u"])[:100], "dimension": msg})
            if not ok:
                rep.violation(Finding("S5", "Spline::operator()", "u", "segment parameter u = %s has dimension %s, expected U (T0 + Del*(t-ta)/T)" % (A.show(locs["u"])[:80], msg), f, l))
    else:
        rep.broke("S5: local u not found in Spline::operator()")


def _scale_rule(rep, qn, b, locs, env, vel_dim, acc_dim):
    for name, want in (("vel", vel_dim), ("acc", acc_dim)):
        sites = scale_sites(b, name)
        f0 = None
        if len(sites) != 1:
            rep.instance("S5", qn, name + "-scale", ok=False, sample={"sites": len(sites)})
            rep.violation(Finding("S5", qn, name + "-scale",
                                  "%s is re-scaled %d time(s) after evaluation in the spline parameter; exactly one chain-rule factor is required" % (name, len(sites)), None, None))
            continue
        op, ex, node = sites[0]
        f, l = A.loc(node)
        # the factor must be applied whenever this output is requested: no enclosing condition on anything but <name>.has_value()
        par = {}
        for p_ in A.walk(b):
            for c_ in A.kids(p_):
                par[id(c_)] = p_
        cur, foreign = node, None
        while id(cur) in par:
            p_ = par[id(cur)]
            if p_.get("kind") == "IfStmt":
                c_ = A.to_expr(A.kids(p_)[0])
                others = sorted(r_ for r_ in A.refs(c_) if r_ != name and r_ in ("vel", "acc", "jer"))
                in_else = len(A.kids(p_)) > 2 and A.kids(p_)[2] is cur
                if others:
                    foreign = (A.show(c_)[:60] + (" [else]" if in_else else ""), p_)
            cur = p_
        if foreign:
            ff, fl = A.loc(foreign[1])
            rep.instance("S5", qn, name + "-scale-guard", ok=False, sample={"file": fe.rel(ff), "line": fl, "guard": foreign[0]})
            rep.violation(Finding("S5", qn, name + "-scale-guard",
                                  "the chain-rule factor of %s is applied only under `%s`: when %s is requested without the other output it is returned in the "
                                  "spline parameter's units" % (name, foreign[0], name), ff, fl))
        try:
            dd = dim_of(ex, env, locs)
        except DimErr as e:
            rep.broke("S5: cannot type chain-rule factor `%s` in %s: %s" % (A.show(ex), qn, e))
            continue
        if dd == POLY:
            dd = (0, 0)
        eff = dd if op == "*=" else (-dd[0], -dd[1])
        ok = eff == want
        rep.instance("S5", qn, name + "-scale", ok=ok, sample={"file": fe.rel(f), "line": l, "factor": op + " " + A.show(ex), "dimension": fmt(eff), "expected": fmt(want)})
        if not ok:
            rep.violation(Finding("S5", qn, name + "-scale",
                                  "%s is scaled by `%s %s` of dimension %s; the chain rule from spline parameter to time needs %s" % (name, op, A.show(ex), fmt(eff), fmt(want)), f, l))


def check_s5_bspline(rep, idx):
    rep.rule("S5", "chain rule: velocity scaled by dU/dT, acceleration by its square; u is a spline parameter", minimum=3)
    d = one(rep, idx, "BSpline::operator()")
    if d is None:
        return
    b = A.body(d.node)
    locs = local_defs(b)
    env = {"t": (1, 0), "m_t0": (1, 0), "m_dt": (1, 0), "istar": (0, 0)}
    # knot-interval parameter is dimensionless: U == 1, so vel needs T^-1, acc T^-2
    _scale_rule(rep, "BSpline::operator()", b, locs, env, vel_dim=(-1, 0), acc_dim=(-2, 0))
    # u in the interior branch
    ok_u = None
    for x in A.walk(b):
        if x.get("kind") in ("BinaryOperator", "CXXOperatorCallExpr"):
            e = A.to_expr(x)
            if e[0] == "op" and e[1] == "=" and e[2] == ("ref", "u", e[2][2] if len(e[2]) > 2 else None) and e[3][0] == "call":
                try:
                    du = dim_of(e[3], env, locs)
                    ok_u = (du in ((0, 0), POLY), fmt(du), A.show(e[3]), x)
                except DimErr as ex:
                    rep.broke("S5: cannot type interior u in BSpline::operator(): %s" % ex)
    if ok_u is None:
        rep.broke("S5: interior assignment to u not found in BSpline::operator()")
    else:
        f, l = A.loc(ok_u[3])
        rep.instance("S5", "BSpline::operator()", "u", ok=ok_u[0], sample={"file": fe.rel(f), "line": l, "expr": ok_u[2][:100], "dimension": ok_u[1]})
        if not ok_u[0]:
            rep.violation(Finding("S5", "BSpline::operator()", "u", "knot-interval parameter u = %s has dimension %s, expected dimensionless" % (ok_u[2][:80], ok_u[1]), f, l))


def check_s5_crop(rep, idx):
    d = one(rep, idx, "Spline::crop")
    if d is None:
        return
    b = A.body(d.node)
    env = {"ta": (1, 0), "tb": (1, 0), "tta": (1, 0), "ttb": (1, 0), "sa": (1, 0), "sb": (1, 0), "seg_T0": (0, 1), "seg_Del": (0, 1),
           "m_end_t": (1, 0), "end_t": (1, 0), "m_seg_T0": (0, 1), "m_seg_Del": (0, 1)}
    n = 0
    for x in A.walk(b):
        if x.get("kind") in ("CompoundAssignOperator", "CXXOperatorCallExpr", "BinaryOperator"):
            e = A.to_expr(x)
            if e[0] == "op" and e[1] in ("+=", "*=", "=") and e[2][0] == "sub" and e[2][1][0] == "ref" and e[2][1][1] in ("seg_T0", "seg_Del", "end_t"):
                f, l = A.loc(x)
                try:
                    dl = dim_of(e[2], env, {})
                    dr = dim_of(e[3], env, {})
                except DimErr as ex:
                    rep.broke("S5: cannot type `%s` in crop: %s" % (A.show(e)[:80], ex))
                    continue
                if e[1] == "*=":
                    ok = dr in ((0, 0), POLY)
                    want = "dimensionless factor"
                else:
                    ok = dr == dl or dr == POLY
                    want = fmt(dl)
                n += 1
                rep.instance("S5", "Spline::crop", "%s %s" % (A.show(e[2]), e[1]), ok=ok, sample={"file": fe.rel(f), "line": l, "rhs": A.show(e[3])[:80], "dimension": fmt(dr), "expected": want})
                if not ok:
                    rep.violation(Finding("S5", "Spline::crop", "%s %s" % (A.show(e[2]), e[1]),
                                          "`%s` has right-hand side of dimension %s, expected %s" % (A.show(e)[:100], fmt(dr), want), f, l))
    if n < 5:
        rep.broke("S5: only %d re-parameterisation assignments found in crop (>=5 confirmed by hand)" % n)


def exec_stmt(stmt, env):
    """Abstractly execute assignments / if-chains over scalar locals with exact rationals (pe.ev)."""
    k = stmt.get("kind")
    if k == "CompoundStmt":
        for c in A.kids(stmt):
            exec_stmt(c, env)
    elif k == "IfStmt":
        ks = A.kids(stmt)
        if pe.ev(A.to_expr(ks[0]), env):
            exec_stmt(ks[1], env)
        elif len(ks) > 2:
            exec_stmt(ks[2], env)
    elif k in ("BinaryOperator", "CXXOperatorCallExpr", "CompoundAssignOperator"):
        e = A.to_expr(stmt)
        if e[0] == "op" and e[1] == "=" and e[2][0] == "ref":
            env[e[2][1]] = pe.ev(e[3], env)
        else:
            raise pe.PEError("unsupported statement %s" % A.show(e)[:60])
    elif k in ("DeclStmt", "NullStmt"):
        for v in A.kids(stmt):
            if v.get("kind") == "VarDecl" and A.kids(v):
                env[v.get("name")] = pe.ev(A.to_expr(A.kids(v)[-1]), env)
    else:
        raise pe.PEError("unsupported statement kind %s" % k)


def check_s6(rep, idx):
    rep.rule("S6", "concat_*: segment i of `other` lands in slot N1+i of all five vectors; end times shifted by t_max", minimum=2)
    for qn in ("Spline::concat_global", "Spline::concat_local"):
        d = one(rep, idx, qn)
        if d is None:
            continue
        b = A.body(d.node)
        locs = local_defs(b)
        seen = {}
        for x in A.walk(b):
            if x.get("kind") in ("BinaryOperator", "CXXOperatorCallExpr"):
                e = A.to_expr(x)
                if e[0] == "op" and e[1] == "=" and e[2][0] == "sub" and member_of_this(e[2][1]) in FIVE and "i" in A.refs(e[2][2][0]):
                    m = member_of_this(e[2][1])
                    okk = True
                    try:
                        # destination slot == size() + i for the value N1 holds (this->size() before the resize)
                        for (n1, iv) in ((7, 0), (7, 3), (2, 5)):
                            env = {"i": iv}
                            if "N1" in locs:
                                env["N1"] = n1
                            env["this.size()"] = n1
                            if pe.ev(e[2][2][0], env) != n1 + iv:
                                okk = False
                    except pe.PEError:
                        okk = False
                    srcs = [(bs, ix) for bs, ix, _ in subscripts(x) if bs[0] == "member" and bs[1][0] == "ref" and bs[1][1] == "other"]
                    try:
                        okk = okk and len(srcs) == 1 and srcs[0][0][2] == m and all(pe.ev(srcs[0][1], {"i": iv}) == iv for iv in (0, 4))
                    except pe.PEError:
                        okk = False
                    if m == "m_end_t":
                        tdeps = dep_names(e[3], locs)
                        okk = okk and "t_max" in re.sub(r"\s", "", " ".join(A.show(locs[n]) for n in tdeps if n in locs) + A.show(e[3]))
                        okk = okk and e[3][0] == "op" and e[3][1] == "+"
                    if m == "m_end_g" and qn.endswith("local"):
                        gdeps = dep_names(e[3], locs)
                        okk = okk and any(re.sub(r"\s", "", A.show(locs[n])) in ("this.end()", "this.m_end_g.back()") for n in gdeps if n in locs) \
                            and e[3][0] == "call" and (e[3][1] or "").split("::")[-1] == "composition"
                    seen[m] = (okk, A.show(e)[:100], x)
        # snapshots (t_max(), end()) must be taken before this spline is modified
        first_write = None
        for x in A.walk(b):
            if x.get("kind") in ("BinaryOperator", "CXXOperatorCallExpr", "CallExpr", "CXXMemberCallExpr"):
                e = A.to_expr(x)
                tgt = None
                if e[0] == "op" and e[1] == "=":
                    t0 = e[2]
                    while t0[0] in ("sub", "mcall"):
                        t0 = t0[1]
                    tgt = member_of_this(t0)
                elif e[0] == "mcall" and e[2] in ("resize", "push_back", "reserve") and member_of_this(e[1]):
                    tgt = member_of_this(e[1])
                if tgt in FIVE + ["m_g0"]:
                    ln = A.loc(x)[1]
                    first_write = ln if first_write is None else min(first_write, ln)
        late = []
        for x in A.walk(b):
            if x.get("kind") == "VarDecl" and A.kids(x) and x.get("name") in dep_names(("init", [v[2] if False else ("ref", "tend", None), ("ref", "gend", None)]), {}):
                pass
        for x in A.walk(b):
            if x.get("kind") == "VarDecl" and A.kids(x):
                init = A.to_expr(A.kids(x)[-1])
                reads_state = any(m in re.sub(r"\s", "", A.show(init)) for m in ("this.t_max()", "this.end()", "this.m_end_g", "this.m_g0", "this.m_end_t"))
                used = any(x.get("name") in A.refs(A.to_expr(v[2])) for v in seen.values())
                if reads_state and used and first_write is not None and A.loc(x)[1] > first_write:
                    late.append(x)
        ok = set(seen) == set(FIVE) and all(v[0] for v in seen.values()) and not late
        for x in late:
            fx, lx = A.loc(x)
            rep.violation(Finding("S6", qn, "snapshot-order",
                                  "`%s` reads this spline's end time/pose after the spline has already been modified (first modification at line %s): "
                                  "appended segments are placed relative to the wrong junction" % (A.text(x)[:70], first_write), fx, lx))
        rep.instance("S6", qn, "copy-loop", ok=ok, sample={"file": fe.rel(d.file), "line": d.line, "assignments": {k: v[1] for k, v in seen.items()}})
        if not (set(seen) == set(FIVE) and all(v[0] for v in seen.values())):
            badm = [k for k in FIVE if k not in seen or not seen[k][0]]
            x = seen[badm[0]][2] if badm and badm[0] in seen else None
            f, l = A.loc(x) if x else (d.file, d.line)
            rep.violation(Finding("S6", qn, "copy-loop", "appended segments are not copied slot-for-slot (size()+i <- other[i], end times shifted by t_max%s) for %s: %s"
                                  % (", end poses composed with end()" if qn.endswith("local") else "", badm,
                                     seen[badm[0]][1] if badm and badm[0] in seen else "assignment missing"), f, l))


def check_q2(rep, idx):
    rep.rule("Q2", "BSpline: t_max = t0 + (N-K)*dt; window = drop(istar) | take(K+1); out-of-range clamps to the end intervals with u in {0,1}", minimum=3)
    d = one(rep, idx, "BSpline::t_max")
    if d is not None:
        rets = [x for x in A.walk(A.body(d.node)) if x.get("kind") == "ReturnStmt"]
        ok = len(rets) == 1
        vals = []
        if ok:
            e = A.to_expr(A.kids(rets[0])[0])
            try:
                for (t0, dt, N, K) in ((5, 3, 17, 4), (-2, Fraction(1, 2), 9, 1), (0, 7, 6, 5)):
                    v = pe.ev(e, {"m_t0": t0, "m_dt": dt, "this.m_ctrl_pts.size()": N, "K": K})
                    vals.append(str(v))
                    if v != t0 + (N - K) * dt:
                        ok = False
            except pe.PEError as ex:
                rep.broke("Q2: cannot evaluate BSpline::t_max return expression: %s" % ex)
                ok = None
        if ok is not None:
            rep.instance("Q2", "BSpline::t_max", "formula", ok=ok, sample={"file": fe.rel(d.file), "line": d.line, "values": vals})
            if not ok:
                rep.violation(Finding("Q2", "BSpline::t_max", "formula", "t_max() is not t0 + (number of control points - K) * dt", d.file, d.line))
    d = one(rep, idx, "BSpline::operator()")
    if d is None:
        return
    b = A.body(d.node)
    # window: the range handed to cspline_eval_gs is ctrl_pts | drop(istar) | take(K+1) (| transform)
    okw = None
    for x in A.walk(b):
        if x.get("kind") == "CallExpr" and (A.callee_name(A.kids(x)[0]) or "").startswith("cspline_eval_gs"):
            rng = A.kids(x)[1]
            drops, takes = [], []
            for y in A.walk(rng):
                if y.get("kind") == "CallExpr":
                    cn = (A.callee_name(A.kids(y)[0]) or "").split("::")[-1]
                    if cn == "drop":
                        drops.append(A.to_expr(A.kids(y)[1]))
                    elif cn == "take":
                        takes.append(A.to_expr(A.kids(y)[1]))
                elif y.get("kind") == "CXXOperatorCallExpr" and len(A.kids(y)) == 3:
                    # range adaptor objects: std::views::drop(n) is operator() on the object `drop`
                    obj = A.strip(A.kids(y)[1])
                    cn = obj.get("referencedDecl", {}).get("name") if obj.get("kind") == "DeclRefExpr" else None
                    if cn == "drop":
                        drops.append(A.to_expr(A.kids(y)[2]))
                    elif cn == "take":
                        takes.append(A.to_expr(A.kids(y)[2]))
            try:
                okw = (len(drops) == 1 and len(takes) == 1 and drops[0][0] == "ref" and drops[0][1] == "istar"
                       and all(pe.ev(takes[0], {"K": kk}) == kk + 1 for kk in (1, 4, 6))
                       and "m_ctrl_pts" in A.ntext(rng))
            except pe.PEError:
                okw = False
            f, l = A.loc(x)
            rep.instance("Q2", "BSpline::operator()", "window", ok=okw, sample={"file": fe.rel(f), "line": l, "drop": [A.show(z) for z in drops], "take": [A.show(z) for z in takes]})
            if not okw:
                rep.violation(Finding("Q2", "BSpline::operator()", "window", "evaluation window is not the K+1 control points starting at istar (drop %s, take %s)"
                                      % ([A.show(z) for z in drops], [A.show(z) for z in takes]), f, l))
    if okw is None:
        rep.broke("Q2: call of cspline_eval_gs not found in BSpline::operator()")
    # clamping: abstractly execute the statements up to the evaluation for all relevant interval indices
    pre = []
    for sst in A.kids(b):
        if sst.get("kind") == "DeclStmt" and any(v.get("name") in ("pcb", "Bum") for v in A.kids(sst)):
            break
        pre.append(sst)
    bad = None
    n_cases = 0
    try:
        for (N, K) in ((5, 3), (8, 1), (12, 6), (3, 2)):
            for j in range(-3, N + 3):
                frac = Fraction(1, 3)
                t0, dt = Fraction(2), Fraction(1, 2)
                tt = t0 + (j + frac) * dt
                env = {"t": tt, "m_t0": t0, "m_dt": dt, "this.m_ctrl_pts.size()": N, "K": K}
                # the truncating conversion int64_t((t - t0)/dt): model floor toward zero explicitly
                envs = dict(env)
                for sst in pre:
                    if sst.get("kind") == "DeclStmt":
                        for v in A.kids(sst):
                            if v.get("kind") == "VarDecl" and A.kids(v):
                                val = pe.ev(A.to_expr(A.kids(v)[-1]), envs)
                                if v.get("name") == "istar":
                                    val = Fraction(int(val))      # conversion to an integer type truncates
                                envs[v.get("name")] = val
                    else:
                        exec_stmt(sst, envs)
                n_cases += 1
                jt = int((tt - t0) / dt)   # truncation toward zero, as the cast does
                if jt < 0:
                    want = (0, 0)
                elif jt > N - K - 1:
                    want = (N - K - 1, 1)
                else:
                    want = (jt, (tt - t0 - jt * dt) / dt)
                    want = (want[0], max(Fraction(0), min(Fraction(1), want[1])))
                got = (envs.get("istar"), envs.get("u"))
                if got != want and bad is None:
                    bad = (N, K, j, got, want)
    except pe.PEError as ex:
        rep.broke("Q2: cannot abstractly execute the interval selection of BSpline::operator(): %s" % ex)
        return
    rep.instance("Q2", "BSpline::operator()", "clamping", ok=bad is None, sample={"file": fe.rel(d.file), "line": d.line, "cases": n_cases})
    if bad:
        rep.violation(Finding("Q2", "BSpline::operator()", "clamping",
                              "with %d control points, degree %d and t in knot interval %d the evaluation uses (istar,u)=%s; the curve definition requires %s "
                              "(end values outside [t_min,t_max], window inside the control points)" % (bad[0], bad[1], bad[2], tuple(map(str, bad[3])), tuple(map(str, bad[4]))), d.file, d.line))


def check_s7(rep, idx):
    rep.rule("S7", "Spline::crop: start pose and segment end poses of the result are expressed in the same frame", minimum=2)
    d = one(rep, idx, "Spline::crop")
    if d is None:
        return
    b = A.body(d.node)
    g0 = None
    ends = []
    for x in A.walk(b):
        if x.get("kind") in ("BinaryOperator", "CXXOperatorCallExpr"):
            e = A.to_expr(x)
            if e[0] == "op" and e[1] == "=":
                if e[2][0] == "member" and e[2][2] == "m_g0" and e[2][1][0] == "ref" and e[2][1][1] == "ret":
                    g0 = (e[3], x)
                if e[2][0] == "sub" and e[2][1][0] == "ref" and e[2][1][1] == "end_g":
                    ends.append((e[3], x))
    if g0 is None or len(ends) < 2:
        rep.broke("S7: start-pose / end-pose assignments of the cropped spline not found (g0=%s, end poses=%d)" % (g0 is not None, len(ends)))
        return

    def strip_move(e):
        if e[0] == "call" and str(e[1]).split("::")[-1] == "move" and len(e[2]) == 1:
            return e[2][0]
        return e
    e0 = g0[0]
    ok0 = (e0[0] == "cond" and e0[1][0] == "ref" and e0[1][1] == "localize" and str(e0[2]).find("Identity") >= 0 and strip_move(e0[3])[0] == "ref")
    f, l = A.loc(g0[1])
    rep.instance("S7", "Spline::crop", "m_g0", ok=ok0, sample={"file": fe.rel(f), "line": l, "expr": A.show(e0)[:80]})
    if not ok0:
        rep.broke("S7: start pose of the cropped spline is no longer `localize ? Identity : x(ta)` (%s); rule needs re-confirmation" % A.show(e0)[:80])
        return
    ga = strip_move(e0[3])[1]
    for e, x in ends:
        f, l = A.loc(x)
        ok = False
        if e[0] == "cond" and e[1][0] == "ref" and e[1][1] == "localize":
            loc_e, glob_e = e[2], e[3]
            # localized: inverse(ga) composed with the global pose
            if loc_e[0] == "call" and str(loc_e[1]).split("::")[-1] == "composition" and len(loc_e[2]) == 2:
                inv, rest = loc_e[2]
                ok = (inv[0] == "call" and str(inv[1]).split("::")[-1] == "inverse" and inv[2][0][0] == "ref" and inv[2][0][1] == ga
                      and A.show(rest) == A.show(glob_e))
        rep.instance("S7", "Spline::crop", "end_g@%s" % A.show(e)[:40], ok=ok, sample={"file": fe.rel(f), "line": l, "expr": A.show(e)[:120]})
        if not ok:
            rep.violation(Finding("S7", "Spline::crop", "end_g",
                                  "segment end pose `%s` is not `localize ? inverse(%s)*X : X`: with localize=false the start pose stays %s (global frame) "
                                  "but this end pose is expressed relative to it, so later segments are offset" % (A.show(e)[:100], ga, ga), f, l))


def check_s8(rep, idx):
    rep.rule("S8", "arclength integrates each segment over [T0, T0 + Del*(min(t,tb)-ta)/(tb-ta)] with the derivative coefficients [3a3, 2a2, a1]", minimum=2)
    d = one(rep, idx, "Spline::arclength")
    if d is None:
        return
    b = A.body(d.node)
    loops = [x for x in A.walk(b) if x.get("kind") == "ForStmt"]
    if not loops:
        rep.broke("S8: segment loop not found in arclength")
        return
    locs = local_defs(loops[0])
    loop_vars = set()
    for lp in loops:
        init = A.kids(lp)[0]
        if init.get("kind") == "DeclStmt":
            loop_vars |= {v.get("name") for v in A.kids(init) if v.get("kind") == "VarDecl"}
    seg_var = next(iter({v.get("name") for v in A.kids(A.kids(loops[0])[0]) if v.get("kind") == "VarDecl"}), "i") if A.kids(loops[0])[0].get("kind") == "DeclStmt" else "i"
    calls = [x for x in A.walk(b) if x.get("kind") == "CallExpr" and (A.callee_name(A.kids(x)[0]) or "").split("::")[-1] == "integrate_absolute_polynomial"]
    if len(calls) != 1:
        rep.broke("S8: expected one call of integrate_absolute_polynomial in arclength, found %d" % len(calls))
        return
    e = A.to_expr(calls[0])
    args = e[2]
    f, l = A.loc(calls[0])

    def inl(x, depth=0):
        if depth > 20 or not isinstance(x, tuple):
            return x
        if x[0] == "ref" and x[1] in locs and x[1] not in ("coefs", "i", "k") and x[1] not in loop_vars:
            return inl(locs[x[1]], depth + 1)
        return tuple(inl(y, depth) if isinstance(y, tuple) else ([inl(z, depth) for z in y] if isinstance(y, list) else y) for y in x)
    lo, hi = inl(args[0]), inl(args[1])
    bad = None
    try:
        T0, Del, ta, tb = Fraction(1, 4), Fraction(1, 2), Fraction(2), Fraction(5)
        for t in (Fraction(5, 2), Fraction(4), Fraction(5), Fraction(7), Fraction(100)):
            env = {"t": t, seg_var: 1, "this.m_seg_T0[1]": T0, "this.m_seg_Del[1]": Del, "this.m_end_t[0]": ta, "this.m_end_t[1]": tb}
            glo, ghi = pe.ev(lo, env), pe.ev(hi, env)
            wlo, whi = T0, T0 + Del * (min(t, tb) - ta) / (tb - ta)
            if (glo, ghi) != (wlo, whi) and bad is None:
                bad = (t, glo, ghi, wlo, whi)
    except pe.PEError as ex:
        rep.broke("S8: cannot evaluate the integration bounds of arclength: %s" % ex)
        return
    rep.instance("S8", "Spline::arclength", "bounds", ok=bad is None, sample={"file": fe.rel(f), "line": l, "lower": A.show(lo)[:80], "upper": A.show(hi)[:120]})
    if bad:
        rep.violation(Finding("S8", "Spline::arclength", "bounds",
                              "for a segment with parameter range [T0, T0+Del] = [1/4, 3/4] spanning t in [2, 5], arclength(%s) integrates over [%s, %s]; "
                              "the curve traversed up to that time is [%s, %s] (an end-cropped segment must not be integrated past its cropped end)"
                              % (bad[0], bad[1], bad[2], bad[3], bad[4]), f, l))
    # integrand: derivative coefficients, decided by evaluating the three coefficient arguments on a symbolic coefficient table
    ok = False
    pat = [A.show(a) for a in args[2:]]
    try:
        kname = next((v for v in loop_vars if v != seg_var), "k")
        tab = {}
        for r, val in ((1, 13), (2, 11), (3, 7), (0, 5)):
            tab["coefs(%d, %s)" % (r, kname)] = val
            tab["coefs[%d, %s]" % (r, kname)] = val
        vals = [pe.ev(a, tab) for a in args[2:]]
        ok = vals == [21, 22, 13]
    except pe.PEError as ex:
        rep.broke("S8: cannot evaluate the integrand coefficients of arclength: %s" % ex)
        return
    okc = "coefs" in locs and re.sub(r"\s", "", A.show(locs["coefs"])) in ("(kMappedBasisFunction.rightCols(K)*this.m_Vs[i].transpose())",)
    rep.instance("S8", "Spline::arclength", "integrand", ok=ok and okc, sample={"args": pat, "coefs": A.show(locs.get("coefs", ("num", 0)))[:100]})
    if not ok:
        rep.violation(Finding("S8", "Spline::arclength", "integrand", "velocity polynomial passed as %s; d/du (a0+a1 u+a2 u^2+a3 u^3) has coefficients (3 a3, 2 a2, a1)" % pat, f, l))
    elif not okc:
        rep.broke("S8: coefficient matrix in arclength is no longer kMappedBasisFunction<K>.rightCols(K) * m_Vs[i].transpose(); re-derive the integrand rule")


# ---- X1: derivative recursion of the cumulative product, in a free Lie-algebra normal form ------------------------

class XErr(Exception):
    pass


def _smul(c1, c2):
    """product of scalar polynomials {monomial tuple: Fraction}"""
    out = {}
    for m1, a in c1.items():
        for m2, b in c2.items():
            m = tuple(sorted(m1 + m2))
            out[m] = out.get(m, 0) + a * b
    return {m: c for m, c in out.items() if c != 0}


def _ladd(x, y, sign=1):
    out = dict(x)
    for t, c in y.items():
        cur = dict(out.get(t, {}))
        for m, a in c.items():
            cur[m] = cur.get(m, 0) + sign * a
        cur = {m: a for m, a in cur.items() if a != 0}
        if cur:
            out[t] = cur
        elif t in out:
            del out[t]
    return out


def _lscale(x, c):
    out = {}
    for t, ct in x.items():
        p = _smul(ct, c)
        if p:
            out[t] = p
    return out


def _lbr(x, y):
    out = {}
    for tx, cx in x.items():
        for ty, cy in y.items():
            if tx == ty:
                continue                      # [a, a] = 0
            out = _ladd(out, {("br", tx, ty): _smul(cx, cy)})
    return out


def _lapp(kind, x):
    return {("T", kind, t): c for t, c in x.items()}


ONE = {(): Fraction(1)}



def anchoring_form(fn):
    """(True, '') when cspline_eval_gs returns composition(first(gs), cspline_eval_vs(vs, Bcum, u, vel, acc, jer)) with
    vs = gs | pairwise_transform((x1, x2) -> x2 (-) x1); (False, reason) when a recognised part is definitely different;
    (None, reason) when the shape is not understood"""
    ps = [p.get("name") for p in A.params(fn)]
    if len(ps) != 6:
        return None, "%d parameters" % len(ps)
    gsn, bn, un, veln, accn, jern = ps
    locs = {}
    lam = {}
    for x in A.walk_nolambda(A.body(fn)):
        if x.get("kind") == "VarDecl" and A.kids(x):
            init = A.strip(A.kids(x)[-1])
            if init.get("kind") == "LambdaExpr":
                lam[x.get("name")] = init
            else:
                locs[x.get("name")] = A.to_expr(init)
    rets = [x for x in A.walk_nolambda(A.body(fn)) if x.get("kind") == "ReturnStmt"]
    if len(rets) != 1:
        return None, "%d return statements" % len(rets)
    r = A.to_expr(A.kids(rets[0])[0])

    def nm(e):
        return str(e[1]).split("::")[-1].split("<")[0]
    if not (r[0] == "call" and nm(r) == "composition" and len(r[2]) == 2):
        if r[0] == "op" and r[1] == "*":
            r = ("call", "composition", [r[2], r[3]])
        else:
            return None, "return expression %s" % A.show(r)[:60]
    first, rest = r[2]
    # anchor: *begin(gs) / gs.front() / gs[0]
    f = first
    is_first = ((f[0] == "un" and f[1] == "*" and f[2][0] == "call" and nm(f[2]) in ("begin", "cbegin") and f[2][2] and f[2][2][0][:2] == ("ref", gsn))
                or (f[0] == "mcall" and f[1][:2] == ("ref", gsn) and f[2] == "front")
                or (f[0] == "sub" and f[1][:2] == ("ref", gsn) and f[2] == [("num", 0)]))
    if not is_first:
        return False, "the anchor is %s, not the first control point" % A.show(first)[:40]
    if not (rest[0] == "call" and nm(rest) == "cspline_eval_vs"):
        return None, "second factor %s" % A.show(rest)[:60]
    args = rest[2]
    if len(args) != 6:
        return False, "cspline_eval_vs is called with %d arguments: a derivative output is not forwarded" % len(args)
    want = [None, bn, un, veln, accn, jern]
    for i in range(1, 6):
        if not (args[i][0] == "ref" and args[i][1] == want[i]):
            return False, "argument %d of cspline_eval_vs is %s, expected %s" % (i + 1, A.show(args[i])[:30], want[i])
    v = args[0]
    while v[0] == "ref" and v[1] in locs:
        v = locs[v[1]]
    if not (v[0] == "op" and v[1] == "|" and v[2][:2] == ("ref", gsn) and v[3][0] == "call" and nm(v[3]) == "pairwise_transform" and len(v[3][2]) == 1):
        return None, "differences are computed as %s" % A.show(v)[:60]
    fnarg = v[3][2][0]
    if not (fnarg[0] == "ref" and fnarg[1] in lam):
        return None, "difference functor %s" % A.show(fnarg)[:40]
    L = lam[fnarg[1]]
    def raw(n):
        yield n
        for c_ in n.get("inner", []) or []:
            if isinstance(c_, dict):
                yield from raw(c_)
    ops = [x for x in raw(L) if x.get("kind") == "CXXMethodDecl" and x.get("name") == "operator()"]
    lps = [p_.get("name") for p_ in ops[0].get("inner", []) if p_.get("kind") == "ParmVarDecl"] if ops else []
    lb = A.lambda_body(L)
    lrets = [x for x in A.walk(lb) if x.get("kind") == "ReturnStmt"] if lb is not None else []
    if len(lps) != 2 or len(lrets) != 1:
        return None, "difference lambda shape"
    e = A.to_expr(A.kids(lrets[0])[0])
    if e[0] == "call" and nm(e) == "rminus" and len(e[2]) == 2:
        a1, a2 = e[2]
    elif e[0] == "op" and e[1] == "-":
        a1, a2 = e[2], e[3]
    else:
        return None, "difference lambda returns %s" % A.show(e)[:40]
    if a1[:2] == ("ref", lps[1]) and a2[:2] == ("ref", lps[0]):
        return True, ""
    if a1[:2] == ("ref", lps[0]) and a2[:2] == ("ref", lps[1]):
        return False, "the differences are g_{i-1} (-) g_i (arguments of the difference swapped)"
    return None, "difference lambda arguments"


def check_x1(rep, idx_cs):
    rep.rule("X1", "cspline_eval_vs: vel/acc/jerk follow the body-derivative recursion of the cumulative product (free Lie-algebra normal form)", minimum=3)
    fns = funcs(idx_cs, "cspline_eval_vs")
    if len(fns) != 1:
        rep.broke("X1: cspline_eval_vs not found")
        return
    d = fns[0]
    b = A.body(d.node)
    loops = [x for x in A.kids(b) if x.get("kind") == "CXXForRangeStmt"]
    if len(loops) != 1:
        rep.broke("X1: expected one range-for over the difference vectors in cspline_eval_vs")
        return
    # derivative order of the monomial rows
    order_of = {}
    for x in A.walk(b):
        if x.get("kind") == "VarDecl" and A.kids(x):
            t = A.ntext(A.kids(x)[-1])
            m = re.search(r"U\[(\d)\]\.data\(\)", t)
            if m:
                order_of[x.get("name")] = int(m.group(1))
    if sorted(order_of.values()) != [0, 1, 2, 3]:
        rep.broke("X1: rows of the monomial-derivative table not identified (%s)" % order_of)
        return
    # loop variable names (structured binding [j, vj])
    lv = [k.get("name") for x in A.walk(loops[0]) if x.get("kind") == "DecompositionDecl" for k in A.kids(x) if k.get("kind") == "BindingDecl"]
    if len(lv) != 2:
        rep.broke("X1: loop over zip(iota, vs) with bindings [j, vj] not recognised")
        return
    jn, vn = lv
    scal = {}      # name -> scalar polynomial
    lie = {}       # name -> lie normal form
    grp = {}       # name -> ('exp', sign) group element exp(+-B0 v)
    trans = {}     # name -> transport kind
    state = {"vel": {("vel0",): ONE}, "acc": {("acc0",): ONE}, "jer": {("jer0",): ONE}}
    state = {k: {next(iter(v))[0] if False else k + "0": ONE} for k, v in state.items()}

    def sc(e):
        if e[0] == "num":
            return {(): Fraction(e[1])}
        if e[0] == "ref" and e[1] in scal:
            return scal[e[1]]
        if e[0] == "op" and e[1] == "*":
            return _smul(sc(e[2]), sc(e[3]))
        if e[0] == "neg":
            return _smul({(): Fraction(-1)}, sc(e[1]))
        raise XErr("scalar %s" % A.show(e)[:50])

    def is_scalar(e):
        try:
            sc(e)
            return True
        except XErr:
            return False

    def target(e):
        """'vel'|'acc'|'jer' if e is X.value() / *X / X.value().noalias()"""
        t = re.sub(r"\s", "", A.show(e))
        m = re.match(r"^(vel|acc|jer)(\.value\(\))?(\.noalias\(\))?$", t)
        return m.group(1) if m else None

    def lv_(e):
        if e[0] == "ref" and e[1] == vn:
            return {"v": ONE}
        if e[0] == "ref" and e[1] in lie:
            return lie[e[1]]
        tg = target(e)
        if tg:
            return state[tg]
        if e[0] == "op" and e[1] == "*":
            # ad(X) * Y  |  scalar * Lie | Lie * scalar | (scalar * ad(X)) * Y
            l, r = e[2], e[3]
            if l[0] == "call" and str(l[1]).split("::")[-1].split("<")[0] == "ad" and len(l[2]) == 1:
                return _lbr(lv_(l[2][0]), lv_(r))
            if l[0] == "op" and l[1] == "*" and l[3][0] == "call" and str(l[3][1]).split("::")[-1].split("<")[0] == "ad" and is_scalar(l[2]):
                return _lscale(_lbr(lv_(l[3][2][0]), lv_(r)), sc(l[2]))
            if is_scalar(l):
                return _lscale(lv_(r), sc(l))
            if is_scalar(r):
                return _lscale(lv_(l), sc(r))
        if e[0] == "op" and e[1] in ("+", "-"):
            return _ladd(lv_(e[2]), lv_(e[3]), 1 if e[1] == "+" else -1)
        if e[0] == "neg":
            return _lscale(lv_(e[1]), {(): Fraction(-1)})
        raise XErr("Lie-algebra expression %s" % A.show(e)[:60])

    def gv(e):
        """group element: exp(s * B0 * v)"""
        if e[0] == "ref" and e[1] in grp:
            return grp[e[1]]
        if e[0] == "call" and str(e[1]).split("::")[-1].split("<")[0] == "exp" and len(e[2]) == 1:
            a = lv_(e[2][0])
            if set(a) == {"v"} and a["v"] in ({("B0",): Fraction(1)}, {("B0",): Fraction(-1)}):
                return ("exp", int(next(iter(a["v"].values()))))
            raise XErr("exp of %s" % a)
        if e[0] == "call" and str(e[1]).split("::")[-1].split("<")[0] == "inverse" and len(e[2]) == 1:
            g = gv(e[2][0])
            return ("exp", -g[1])
        raise XErr("group expression %s" % A.show(e)[:50])

    def tv(e):
        if e[0] == "ref" and e[1] in trans:
            return trans[e[1]]
        if e[0] == "call" and str(e[1]).split("::")[-1].split("<")[0] == "Ad" and len(e[2]) == 1:
            g = gv(e[2][0])
            return "Ad(exp(-B v))" if g[1] == -1 else "Ad(exp(+B v))"
        if e[0] == "mcall" and e[2] in ("inverse", "transpose") and not e[4]:
            inner = tv(e[1])
            if e[2] == "inverse":
                return {"Ad(exp(-B v))": "Ad(exp(+B v))", "Ad(exp(+B v))": "Ad(exp(-B v))"}.get(inner, inner + "^-1")
            return inner + "^T"
        raise XErr("transport operator %s" % A.show(e)[:50])

    value_steps = []
    guard_skips = []

    def run(node):
        for s in A.kids(node):
            k = s.get("kind")
            if k == "DeclStmt":
                for v in A.kids(s):
                    if v.get("kind") != "VarDecl" or not A.kids(v):
                        continue
                    e = A.to_expr(A.kids(v)[-1])
                    nm = v.get("name")
                    t = re.sub(r"\s", "", A.show(e))
                    m = re.match(r"^(\w+)\.dot\(Bcum\.col\((\w+)\)\)$", t)
                    if m and m.group(1) in order_of and m.group(2) == jn:
                        scal[nm] = {("B%d" % order_of[m.group(1)],): Fraction(1)}
                        continue
                    for fn_, store in ((gv, grp), (tv, trans), (lv_, lie)):
                        try:
                            store[nm] = fn_(e)
                            break
                        except XErr:
                            continue
                    else:
                        raise XErr("declaration %s = %s" % (nm, A.show(e)[:60]))
            elif k == "IfStmt":
                c = A.to_expr(A.kids(s)[0])
                conj = []

                def flat(x):
                    if x[0] == "op" and x[1] == "&&":
                        flat(x[2])
                        flat(x[3])
                    else:
                        conj.append(x)
                flat(c)
                req = [x for x in conj if x[0] == "mcall" and x[2] == "has_value"]
                extra = [x for x in conj if not (x[0] == "mcall" and x[2] == "has_value")]
                if not req:
                    raise XErr("condition %s" % A.show(c))
                if extra:
                    # an additional guard on the degree: the update is skipped for the degrees that falsify it
                    import pe as _pe
                    skipped = []
                    for kdeg in range(1, 7):
                        try:
                            if not all(_pe.ev(x, {"K": kdeg}) for x in extra):
                                skipped.append(kdeg)
                        except _pe.PEError as ex_:
                            raise XErr("guard %s of a derivative update is not a condition on the degree K (%s)" % (A.show(c)[:60], ex_))
                    tg = sorted({str(x[1][1]) for x in req if x[1][0] == "ref"})
                    guard_skips.append((A.show(c)[:80], skipped, tg, s))
                run(A.kids(s)[1])
            elif k == "CompoundStmt":
                run(s)
            elif k in ("CallExpr", "CXXMemberCallExpr"):
                e = A.to_expr(s)
                if e[0] == "mcall" and e[2] == "applyOnTheLeft" and target(e[1]) and len(e[4]) == 1:
                    tg = target(e[1])
                    state[tg] = _lapp(tv(e[4][0]), state[tg])
                else:
                    raise XErr("statement %s" % A.show(e)[:60])
            elif k in ("CompoundAssignOperator", "BinaryOperator", "CXXOperatorCallExpr"):
                e = A.to_expr(s)
                if e[0] == "op" and e[1] in ("+=", "-=") and target(e[2]):
                    tg = target(e[2])
                    state[tg] = _ladd(state[tg], lv_(e[3]), 1 if e[1] == "+=" else -1)
                elif e[0] == "op" and e[1] == "=" and e[2][0] == "ref" and e[2][1] == "g":
                    r = e[3]
                    okv = (r[0] == "call" and str(r[1]).split("::")[-1].split("<")[0] == "composition" and len(r[2]) == 2
                           and r[2][0][0] == "ref" and r[2][0][1] == "g")
                    if okv:
                        try:
                            okv = gv(r[2][1]) == ("exp", 1)
                        except XErr:
                            okv = False
                    value_steps.append((okv, A.show(e)[:80], s))
                else:
                    raise XErr("statement %s" % A.show(e)[:60])
            else:
                raise XErr("statement kind %s" % k)

    try:
        run(A.kids(loops[0])[-1])
    except XErr as ex:
        rep.broke("X1: cannot abstract the derivative recursion of cspline_eval_vs: %s" % ex)
        return
    # value: g starts at the identity and is right-multiplied by exp(B_j v_j) for j = 1..K (column 0 of the cumulative basis is the
    # constant 1 belonging to the anchor)
    ginit = None
    for x in A.kids(b):
        if x.get("kind") == "DeclStmt":
            for v_ in A.kids(x):
                if v_.get("kind") == "VarDecl" and v_.get("name") == "g" and A.kids(v_):
                    ginit = A.to_expr(A.kids(v_)[-1])
    rng = None
    for c in A.kids(loops[0]):
        if c.get("kind") == "DeclStmt":
            for v_ in A.kids(c):
                if (v_.get("name") or "").startswith("__range") and A.kids(v_):
                    rng = re.sub(r"\s", "", A.show(A.to_expr(A.kids(v_)[-1])))
    okval = (ginit is not None and ginit[0] == "call" and str(ginit[1]).split("::")[-1].split("<")[0] == "Identity"
             and len(value_steps) == 1 and value_steps[0][0] and rng is not None and re.search(r"zip\(.*iota[\[(]1[\])].*,vs\)", rng) is not None)
    rep.instance("X1", "cspline_eval_vs", "value", ok=okval, sample={"file": fe.rel(d.file), "line": d.line, "range": rng,
                                                                      "step": value_steps[0][1] if value_steps else None})
    if not okval:
        rep.violation(Finding("X1", "cspline_eval_vs", "value",
                              "the curve value is not Identity * prod_{j=1..K} exp(Bcum_j(u) v_j) accumulated by right-multiplication "
                              "(init=%s, range=%s, step=%s)" % (A.show(ginit)[:40] if ginit else None, rng, value_steps[0][1] if value_steps else None),
                              d.file, d.line))
    T = "Ad(exp(-B v))"
    B1, B2, B3 = ({("B%d" % i,): Fraction(1)} for i in (1, 2, 3))
    v = {"v": ONE}
    vel0, acc0, jer0 = ({n: ONE} for n in ("vel0", "acc0", "jer0"))
    vel1 = _ladd(_lapp(T, vel0), _lscale(v, B1))
    acc1 = _ladd(_ladd(_lapp(T, acc0), _lscale(_lbr(vel1, v), B1)), _lscale(v, B2))
    jer1 = _lapp(T, jer0)
    jer1 = _ladd(jer1, _lscale(_lbr(acc1, v), _smul({(): Fraction(2)}, B1)))
    jer1 = _ladd(jer1, _lscale(_lbr(_lbr(vel1, v), v), _smul(B1, B1)), -1)
    jer1 = _ladd(jer1, _lscale(_lbr(vel1, v), B2))
    jer1 = _ladd(jer1, _lscale(v, B3))

    def fmt_t(t):
        if isinstance(t, tuple):
            if t[0] == "br":
                return "[%s, %s]" % (fmt_t(t[1]), fmt_t(t[2]))
            if t[0] == "T":
                return "%s*%s" % (t[1], fmt_t(t[2]))
        return str(t)

    def fmt(x):
        parts = []
        for t, c in sorted(x.items(), key=lambda kv: fmt_t(kv[0])):
            cs = " + ".join("%s%s" % (("%s*" % a) if a != 1 else "", "*".join(m) or "1") for m, a in sorted(c.items()))
            parts.append("(%s) %s" % (cs, fmt_t(t)))
        return " + ".join(parts) or "0"
    for ctext, skipped, tgs, node_ in guard_skips:
        # for K = 1 the true acceleration and jerk of exp(B_1(u) v_1) vanish (second and third basis derivatives are 0 and [v, v] = 0),
        # so skipping them is exact; every other skipped update leaves a requested output at its zero initial value although the
        # recursion gives a non-zero term
        harmful = [k_ for k_ in skipped if k_ >= 2 or "vel" in tgs]
        rep.instance("X1", "cspline_eval_vs", "guard %s" % ctext, ok=not harmful, sample={"file": fe.rel(d.file), "line": d.line, "skipped_for_K": skipped})
        if harmful:
            rep.violation(Finding("X1", "cspline_eval_vs", "guard %s" % ctext,
                                  "the update of %s is skipped for degree K in %s by the guard `%s`; the recursion contributes bracket terms "
                                  "(B1^2 [[w, v], v] and B2 [w, v] for the jerk) that do not vanish for K >= 2, so the requested output is wrong there"
                                  % ("/".join(tgs), harmful, ctext), d.file, d.line))
    for name, got, want, what in (("vel", state["vel"], vel1, "w_j = Ad(exp(-B_j v_j)) w_{j-1} + B_j' v_j"),
                                  ("acc", state["acc"], acc1, "a_j = Ad a_{j-1} + B_j' [w_j, v_j] + B_j'' v_j"),
                                  ("jer", state["jer"], jer1, "j_j = Ad j_{j-1} + 2 B' [a_j, v] - B'^2 [[w_j, v], v] + B'' [w_j, v] + B''' v")):
        ok = got == want
        rep.instance("X1", "cspline_eval_vs", name, ok=ok, sample={"file": fe.rel(d.file), "line": d.line, "recursion": what, "normal_form": fmt(got)[:300]})
        if not ok:
            rep.violation(Finding("X1", "cspline_eval_vs", name,
                                  "the %s update is %s ; the body-derivative recursion of g = prod exp(B_j v_j) is %s, i.e. %s"
                                  % (name, fmt(got)[:260], what, fmt(want)[:260]), d.file, d.line))
    # cspline_eval_gs anchors the same curve at g_0 with v_i = g_i (-) g_{i-1}
    gs = funcs(idx_cs, "cspline_eval_gs")
    if len(gs) == 1:
        verdict, why = anchoring_form(gs[0].node)
        if verdict is None:
            rep.broke("X1: cspline_eval_gs has a shape the anchoring rule does not understand: %s" % why)
        else:
            rep.instance("X1", "cspline_eval_gs", "anchoring", ok=verdict, nontrivial=True, sample={"file": fe.rel(gs[0].file), "line": gs[0].line})
            if not verdict:
                rep.violation(Finding("X1", "cspline_eval_gs", "anchoring",
                                      "cspline_eval_gs is not g_0 * cspline_eval_vs(v_i = g_i (-) g_{i-1}) with all derivative outputs forwarded: %s" % why,
                                      gs[0].file, gs[0].line))
    else:
        rep.broke("X1: cspline_eval_gs not found")
