import layers
import switches


def check(rep, tier, replay=None):
    switches.run(rep, "C05")
    layers.run(rep, 2)
