#!/usr/bin/env python3
"""retag_selftests.py <property> ...: for 'fire' entries whose expected rule no longer exists, run the check and record the rule that reports it
(maintenance helper after a rule family was re-implemented; prints what it changes)."""
import json, os, re, subprocess, sys, shutil, tempfile
sys.path.insert(0, os.path.dirname(os.path.abspath(__file__)) + "/../selftest")
VERIF = os.path.dirname(os.path.dirname(os.path.abspath(__file__)))
p = os.path.join(VERIF, "selftest", "catalogue.json")
c = json.load(open(p))
props = sys.argv[1:]
from concurrent.futures import ThreadPoolExecutor
def run(m):
    d = tempfile.mkdtemp(prefix="smooth-rt-")
    try:
        for sub in ("include", "config"):
            shutil.copytree(os.path.join("/repo", sub), os.path.join(d, sub))
        shutil.copy("/repo/CMakeLists.txt", d)
        for ed in m["edits"]:
            q = os.path.join(d, ed["file"]); s = open(q).read()
            if s.count(ed["old"]) != ed.get("count", 1):
                return m, None, "STALE"
            open(q, "w").write(s.replace(ed["old"], ed["new"]))
        env = dict(os.environ, VERIF_REPO=d, VERIF_EVIDENCE_DIR=os.path.join(d, "evidence"), VERIF_TIER="quick")
        r = subprocess.run([os.path.join(VERIF, "check"), m["property"], "--tier", "quick"], capture_output=True, text=True, env=env, timeout=3600)
        rules = re.findall(r"^  \[([\w.]+)\]", r.stdout, re.M)
        return m, r.returncode, rules
    finally:
        shutil.rmtree(d, ignore_errors=True)
todo = [m for m in c if m["property"] in props and m["expect"] == "fire"]
with ThreadPoolExecutor(max_workers=8) as ex:
    for m, code, rules in ex.map(run, todo):
        if code == 1 and rules and m.get("rule") not in rules:
            print("%-45s %s -> %s" % (m["id"], m.get("rule"), rules[0]))
            m["rule"] = rules[0]
            m.pop("mention", None)
        elif code != 1:
            print("%-45s NOT FIRING (exit %s) %s" % (m["id"], code, rules))
json.dump(c, open(p, "w"), indent=1)
