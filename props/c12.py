"""C12 -- spline construction, concatenation and cropping preserve the curve (structural clauses S1..S6)."""
import astlib as A
import fe
import splines
import tables
import wit


def s3_witnesses():
    ws = []
    for K in range(1, 7):
        d = "constexpr auto M = smooth::polynomial_cumulative_basis<vw::PolynomialBasis::Bernstein, %d>();\n" % K
        d += ("constexpr bool lin = [] { for (std::size_t i = 0; i < %d; ++i) { double s = 0; for (std::size_t j = 1; j < %d; ++j) s += M[i][j]; "
              "if (vw::cabs(s - (i == 1 ? %d. : 0.)) > 1e-12) return false; } return true; }();\n" % (K + 1, K + 1, K))
        d += "static_assert(lin, \"sum_{i=1..K} Bcum_i(u) != K*u for the Bernstein cumulative basis\");\n"
        ws.append(wit.Wit("bernstein_sum_%d" % K, "", d, what="sum_{i=1..%d} Bcum_i(u) = %d*u (coefficient space)" % (K, K), group="S3-basis-identity"))
    return ws


def check(rep, tier, replay=None):
    rep.explanations.append(
        "C12: rules on the syntax tree of Spline's members: lock-step of the five per-segment vectors, source/result index frames in "
        "crop, degree-generic constant-velocity scaling (with the Bernstein identity discharged by static_assert), outputs defined on "
        "every path, chain-rule factors by dimension analysis, slot-for-slot copy in concat.")
    rep.trusted.update(["clang++-16 front end", "lib/pe.py identity testing of index/scale expressions over exact rationals"])
    rep.assumptions.append("numerical agreement of concatenated/cropped curves and arclength are not decided")
    d = fe.ast_dumps(["Spline", "cspline_eval", "kBasisFunction"])
    idx = A.index(d["Spline"])
    idx_cs = A.index(d["cspline_eval"])
    rep.unit("umbrella TU filtered Spline / cspline_eval / kBasisFunction")
    splines.check_s1(rep, idx)
    splines.check_s2(rep, idx)
    splines.check_s3(rep, idx)
    # the basis used by Spline is the Bernstein cumulative basis
    kb = [x for x in A.index(d["kBasisFunction"]) if x.qname.endswith("kBasisFunction") and x.pattern]
    okb = bool(kb) and "polynomial_cumulative_basis<PolynomialBasis::Bernstein,K,double>()" in A.ntext(kb[0].node)
    rep.rule("S3b", "Spline evaluates with the Bernstein cumulative basis; sum_i Bcum_i(u) = K*u", minimum=7)
    rep.instance("S3b", "kBasisFunction", "is-bernstein-cumulative", ok=okb, sample={"text": A.ntext(kb[0].node)[:120] if kb else None})
    if not okb:
        rep.broke("kBasisFunction is no longer polynomial_cumulative_basis<Bernstein,K,double>(); S3 needs re-derivation")
    tables.run(rep, "S3b", s3_witnesses(), "Spline evaluates with the Bernstein cumulative basis; sum_i Bcum_i(u) = K*u", 7)
    splines.check_s4(rep, idx, idx_cs, ["Spline::operator()"])
    splines.check_s5_spline(rep, idx)
    splines.check_s5_crop(rep, idx)
    splines.check_s6(rep, idx)
    splines.check_s7(rep, idx)
    splines.check_s8(rep, idx)
    splines.check_s9(rep, idx)
    splines.check_s10(rep, idx)
    # arclength sums integrate_absolute_polynomial over the segments (S8 decides the bounds and integrand; the helper itself is C20's rule I1)
    import c20
    c20.check_i1(rep)
