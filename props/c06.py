"""C06 -- Bundle is the direct product; vectors and scalars are translation groups.

B1/B2 (I) block non-interference on the resolved program: in the IR of API-level witnesses of every Bundle operation,
          each output cell inside part i's range depends (SSA def-use + control dependence) only on input cells of part i,
          and every cell outside the diagonal blocks is only ever stored the constant 0.
T1   (I) translation-group shape: for fixed-size Eigen vectors and built-in scalars through the LieGroup interface,
          composition cell k = fadd(load a[k], load b[k]), inverse = fneg, exp/log verbatim loads, Ad/dr_exp/dr_expinv
          store the constants of I, ad/d2r_* store only 0.
K1   (A) index-kind typing on the BundleImpl template pattern (all compositions): every sub-block of a parameter is
          addressed with the constants of the parameter's own kind and the same part index i, and the callee is
          PartImpl<i>::<same operation>.
K2   (A) Hessian placement formula of BundleImpl::d2r_exp/d2r_expinv and of lie_sparse<Bundle>::d2_exp_sparse_pattern
          agree with the documented stacked layout (partially evaluated for a set of Dof tuples).
"""
import re

import astlib as A
import fe
import groups
import ir
import irw
from report import Finding


def ranges(members, attr):
    out, off = [], 0
    for m in members:
        n = getattr(m, attr)
        out.append((off, off + n))
        off += n
    return out


def part_of(k, rs):
    for i, (a, b) in enumerate(rs):
        if a <= k < b:
            return i
    return None


class Role:
    """Maps a flat cell index (column-major) of an argument/result to the Bundle part it belongs to (or None)."""

    def __init__(self, g, kind):
        self.g = g
        self.kind = kind
        ms = g.members
        self.rep = ranges(ms, "rep")
        self.dof = ranges(ms, "dof")
        self.dim = ranges(ms, "dim")
        D = g.dof
        self.size = {"rep": g.rep, "tan": g.dof, "tanmat": D * D, "mat": g.dim * g.dim, "hess": D * D * D}[kind]

    def part(self, idx):
        g = self.g
        if self.kind == "rep":
            return part_of(idx, self.rep)
        if self.kind == "tan":
            return part_of(idx, self.dof)
        if self.kind == "tanmat":
            r, c = idx % g.dof, idx // g.dof
            pr, pc = part_of(r, self.dof), part_of(c, self.dof)
            return pr if pr == pc else None
        if self.kind == "mat":
            r, c = idx % g.dim, idx // g.dim
            pr, pc = part_of(r, self.dim), part_of(c, self.dim)
            return pr if pr == pc else None
        if self.kind == "hess":
            r, c = idx % g.dof, idx // g.dof
            b, cc = c // g.dof, c % g.dof
            pr, pb, pc = part_of(r, self.dof), part_of(b, self.dof), part_of(cc, self.dof)
            return pr if (pr == pb == pc) else None

    def ctype(self):
        g = self.g
        S = g.scalar
        return {"rep": None, "tan": "Eigen::Matrix<%s, %d, 1>" % (S, g.dof),
                "tanmat": "Eigen::Matrix<%s, %d, %d>" % (S, g.dof, g.dof),
                "mat": "Eigen::Matrix<%s, %d, %d>" % (S, g.dim, g.dim),
                "hess": "Eigen::Matrix<%s, %d, %d>" % (S, g.dof, g.dof * g.dof)}[self.kind]


OPS = [
    # name, input roles, output role, expression (inputs x0,x1; bundle type GT)
    ("composition", ["rep", "rep"], "rep", "x0 * x1"),
    ("inverse", ["rep"], "rep", "x0.inverse()"),
    ("exp", ["tan"], "rep", "GT::exp(x0)"),
    ("log", ["rep"], "tan", "x0.log()"),
    ("Ad", ["rep"], "tanmat", "x0.Ad()"),
    ("ad", ["tan"], "tanmat", "GT::ad(x0)"),
    ("dr_exp", ["tan"], "tanmat", "GT::dr_exp(x0)"),
    ("dr_expinv", ["tan"], "tanmat", "GT::dr_expinv(x0)"),
    ("d2r_exp", ["tan"], "hess", "GT::d2r_exp(x0)"),
    ("d2r_expinv", ["tan"], "hess", "GT::d2r_expinv(x0)"),
    ("hat", ["tan"], "mat", "GT::hat(x0)"),
    ("vee", ["mat"], "tan", "GT::vee(x0)"),
    ("matrix", ["rep"], "mat", "x0.matrix()"),
    ("rplus", ["rep", "tan"], "rep", "x0 + x1"),
    ("rminus", ["rep", "rep"], "tan", "x0 - x1"),
]


def bundle_witnesses(bundles, tier):
    W = irw.IRW("c06", groups.PRELUDE, chunk=4)
    for g in bundles:
        for name, ins, outr, expr in OPS:
            if g.dof > 12 and name in ("d2r_exp", "d2r_expinv"):
                continue   # Dof^3 cells: kept to the smaller compositions
            S = g.scalar
            sig = ", ".join("const %s* p%d" % (S, i) for i in range(len(ins))) + ", %s* out" % S
            body = "  using GT = %s;\n" % g.ctype
            for i, r in enumerate(ins):
                ro = Role(g, r)
                if r == "rep":
                    body += "  smooth::Map<const GT> x%d(p%d);\n" % (i, i)
                else:
                    body += "  Eigen::Map<const %s> x%d(p%d);\n" % (ro.ctype(), i, i)
            ro = Role(g, outr)
            if outr == "rep":
                body += "  smooth::Map<GT> o(out);\n"
            else:
                body += "  Eigen::Map<%s> o(out);\n" % ro.ctype()
            body += "  o = %s;\n" % expr
            W.add("b_%s_%s" % (g.key, name), sig, body, g=g, op=name, ins=ins, out=outr)
    return W


def check_bundles(rep, bundles, tier):
    rep.rule("B1", "Bundle output cells of part i depend only on input cells of part i", minimum=28)
    rep.rule("B2", "cells outside the diagonal blocks are only ever stored the constant 0", minimum=8)
    W = bundle_witnesses(bundles, tier)
    facts = W.build()
    rep.unit("%d Bundle operation witnesses over %d compositions" % (len(W.wits), len(bundles)))
    for fname, (ff, meta, mod) in sorted(facts.items()):
        g = meta["g"]
        op = meta["op"]
        inroles = [Role(g, r) for r in meta["ins"]]
        outrole = Role(g, meta["out"])
        outp = len(inroles)
        try:
            cells, problems = irw.cell_writes(ff, outp, g.ssize)
        except ir.Unresolved as e:
            rep.broke("%s: %s" % (fname, e))
            continue
        foreign = irw.foreign_writes(ff, {outp})
        if foreign:
            glob = [w for w in foreign if ir.root_kind(w["prov"].root) == "global"]
            if glob:
                # a Bundle operation that keeps scratch / results in static storage: its output is no longer a function of its own inputs alone (overlapping or
                # re-entrant evaluations see each other's blocks) -- a definite defect of the direct-product clause, not an abstraction limit
                gname = str(glob[0]["prov"].root[1])[:90]
                rep.instance("B1", g.ctype, op + " static storage", ok=False, sample={"witness": fname, "global": gname})
                rep.violation(Finding("B1", g.ctype, op + " static storage", "%s of %s writes static-storage data (%s): the blocks of the result pass through storage shared by every "
                                      "evaluation of this operation, so a result can contain blocks computed from another call's tangent" % (op, g.ctype, gname), None, None, detail={"witness": fname}))
                continue
            rep.broke("%s: write outside the output buffer: %s" % (fname, foreign[0]["instr"].text[:100]))
            continue
        if problems:
            rep.broke("%s: %s" % (fname, problems[0]))
            continue
        missing = [k for k in range(outrole.size) if k not in cells]
        if missing:
            rep.broke("%s: output cells never written: %s" % (fname, missing[:8]))
            continue
        bad1 = []
        bad2 = []
        unresolved = []
        n_off = 0
        for k, ws in sorted(cells.items()):
            pi = outrole.part(k)
            if pi is None:
                n_off += 1
                for w in ws:
                    if w["const"] != 0:
                        bad2.append((k, w))
                continue
            for w in ws:
                for leaf in w["deps"]:
                    if leaf[0] == "mem":
                        root, off = leaf[1], leaf[2]
                        if root[0] == "param" and root[1] < outp:
                            if off is None:
                                unresolved.append("cell %d: load with non-constant offset from input %d" % (k, root[1]))
                                continue
                            ipart = inroles[root[1]].part(off // g.ssize)
                            if ipart != pi:
                                bad1.append((k, pi, root[1], off // g.ssize, ipart, w["text"]))
                        elif root[0] == "param" and root[1] == outp:
                            # reads its own output buffer (in-place update of a block): must stay inside the same part
                            if off is None:
                                unresolved.append("cell %d: self-load with non-constant offset" % k)
                                continue
                            ipart = outrole.part(off // g.ssize)
                            if ipart != pi:
                                bad1.append((k, pi, "out", off // g.ssize, ipart, w["text"]))
                        elif root[0] == "global":
                            if not mod.globals.get(root[1], {}).get("const"):
                                unresolved.append("cell %d depends on mutable global %s" % (k, root[1]))
                        else:
                            unresolved.append("cell %d depends on memory of unresolved provenance %s" % (k, root))
                    elif leaf[0] in ("call", "unknown", "param"):
                        unresolved.append("cell %d depends on %s" % (k, leaf))
        if unresolved:
            rep.broke("%s: %s" % (fname, unresolved[0]))
            continue
        rep.instance("B1", g.ctype, op, ok=not bad1,
                     sample={"witness": fname, "cells": len(cells), "diagonal_cells": len(cells) - n_off, "output_role": meta["out"]})
        if n_off:
            rep.instance("B2", g.ctype, op, ok=not bad2, sample={"witness": fname, "off_diagonal_cells": n_off})
        if bad1:
            k, pi, inp, ik, ipart, txt = bad1[0]
            rep.violation(Finding("B1", g.ctype, op,
                                  "%s: output cell %d (part %d) depends on input %s cell %d which belongs to part %s "
                                  "(%d interfering dependencies in total)" % (op, k, pi, inp, ik, ipart, len(bad1)),
                                  "include/smooth/detail/bundle.hpp", None, detail={"witness": fname, "store": txt}))
        if bad2:
            k, w = bad2[0]
            rep.violation(Finding("B2", g.ctype, op,
                                  "%s: cell %d lies outside every diagonal block of the documented layout but is stored %s (%s); "
                                  "%d such cells" % (op, k, "a non-constant value" if w["const"] is None else w["const"], w["text"], len(bad2)),
                                  "include/smooth/detail/bundle.hpp", None, detail={"witness": fname}))


# ----------------------------------------------------------------------------------------------

def t1_types(tier):
    ts = [("V3d", "Eigen::Vector3d", "double", 3), ("V1d", "Eigen::Matrix<double, 1, 1>", "double", 1),
          ("V5f", "Eigen::Matrix<float, 5, 1>", "float", 5), ("double", "double", "double", 1), ("float", "float", "float", 1)]
    if tier == "thorough":
        ts += [("V6d", "Eigen::Matrix<double, 6, 1>", "double", 6), ("V2f", "Eigen::Vector2f", "float", 2)]
    return ts


def check_translation(rep, tier):
    rep.rule("T1", "vectors/scalars through the LieGroup interface have the additive-group shape", minimum=40)
    W = irw.IRW("c06t", groups.PRELUDE + "#include <smooth/lie_groups/native.hpp>\n", chunk=8)
    for key, ct, S, n in t1_types(tier):
        isvec = ct not in ("double", "float")
        ld = (lambda p: "Eigen::Map<const %s> %s_(%s); const %s %s = %s_;" % (ct, p, p, ct, "x" + p[-1], p)) if isvec else \
             (lambda p: "const %s x%s = *%s;" % (ct, p[-1], p))
        outv = "Eigen::Map<%s> o(out); o = " % ct if isvec else "*out = "
        outm = "Eigen::Map<Eigen::Matrix<%s, %d, %d>> o(out); o = " % (S, n, n)
        outh = "Eigen::Map<Eigen::Matrix<%s, %d, %d>> o(out); o = " % (S, n, n * n)
        tan = "Eigen::Map<const Eigen::Matrix<%s, %d, 1>> a(p0);" % (S, n)
        ops = {
            "composition": ("const %s* p0, const %s* p1, %s* out" % (S, S, S), "  using GT = %s; %s %s\n  %s::smooth::composition(x0, x1);\n" % (ct, ld("p0"), ld("p1"), outv), "add"),
            "inverse": ("const %s* p0, %s* out" % (S, S), "  using GT = %s; %s\n  %s::smooth::inverse(x0);\n" % (ct, ld("p0"), outv), "neg"),
            "log": ("const %s* p0, %s* out" % (S, S), "  using GT = %s; %s\n  Eigen::Map<Eigen::Matrix<%s, %d, 1>> o(out); o = ::smooth::log(x0);\n" % (ct, ld("p0"), S, n), "copy"),
            "exp": ("const %s* p0, %s* out" % (S, S), "  using GT = %s; %s\n  %s::smooth::exp<GT>(a);\n" % (ct, tan, outv), "copy"),
            "rplus": ("const %s* p0, const %s* p1, %s* out" % (S, S, S), "  using GT = %s; %s Eigen::Map<const Eigen::Matrix<%s, %d, 1>> a(p1);\n  %s::smooth::rplus(x0, a);\n" % (ct, ld("p0"), S, n, outv), "add"),
            "Ad": ("const %s* p0, %s* out" % (S, S), "  using GT = %s; %s\n  %s::smooth::Ad(x0);\n" % (ct, ld("p0"), outm), "eye"),
            "ad": ("const %s* p0, %s* out" % (S, S), "  using GT = %s; %s\n  %s::smooth::ad<GT>(a);\n" % (ct, tan, outm), "zero"),
            "dr_exp": ("const %s* p0, %s* out" % (S, S), "  using GT = %s; %s\n  %s::smooth::dr_exp<GT>(a);\n" % (ct, tan, outm), "eye"),
            "dr_expinv": ("const %s* p0, %s* out" % (S, S), "  using GT = %s; %s\n  %s::smooth::dr_expinv<GT>(a);\n" % (ct, tan, outm), "eye"),
            "dl_exp": ("const %s* p0, %s* out" % (S, S), "  using GT = %s; %s\n  %s::smooth::dl_exp<GT>(a);\n" % (ct, tan, outm), "eye"),
            "d2r_exp": ("const %s* p0, %s* out" % (S, S), "  using GT = %s; %s\n  %s::smooth::d2r_exp<GT>(a);\n" % (ct, tan, outh), "zero"),
            "d2r_expinv": ("const %s* p0, %s* out" % (S, S), "  using GT = %s; %s\n  %s::smooth::d2r_expinv<GT>(a);\n" % (ct, tan, outh), "zero"),
        }
        for op, (sig, body, shape) in ops.items():
            W.add("t_%s_%s" % (key, op), sig, body, key=key, ct=ct, S=S, n=n, op=op, shape=shape)
    facts = W.build()
    rep.unit("%d translation-group witnesses" % len(W.wits))
    for fname, (ff, meta, mod) in sorted(facts.items()):
        n, op, shape, S = meta["n"], meta["op"], meta["shape"], meta["S"]
        ss = 8 if S == "double" else 4
        nin = fname and (2 if op in ("composition", "rplus") else 1)
        outp = nin
        cells, problems = irw.cell_writes(ff, outp, ss)
        fw = irw.foreign_writes(ff, {outp})
        glob = [w for w in fw if ir.root_kind(w["prov"].root) == "global" and not str(ir.flat_roots(w["prov"].root)[0][1]).startswith(("@_ZGV", "@__cxa"))]
        if glob and not problems:
            gname = str(ir.flat_roots(glob[0]["prov"].root)[0][1])
            rep.instance("T1", "%s<%s,%d>" % (meta["ct"].split("<")[0], S, n), op, ok=False, sample={"witness": fname, "global": gname[:80]})
            rep.violation(Finding("T1", "%s" % meta["ct"], op,
                                  "%s writes to the object with static storage `%s`: the result is kept between calls, so it can depend on earlier calls (for dynamic sizes: "
                                  "on the size of the first call) instead of on the argument alone" % (op, gname[:90]), None, None, detail={"witness": fname}))
            continue
        if problems or fw:
            rep.broke("%s: %s" % (fname, (problems or ["foreign write"])[0]))
            continue
        size = {"add": n, "neg": n, "copy": n, "eye": n * n, "zero": n * n * (n if "d2r" in op else 1)}[shape]
        ok = True
        msg = None
        if sorted(cells) != list(range(size)):
            ok, msg = False, "cells written %s, expected 0..%d" % (sorted(cells)[:6], size - 1)
        else:
            for k in range(size):
                ws = cells[k]
                # the final value of the cell: every write must have the expected shape
                for w in ws:
                    if shape in ("eye", "zero"):
                        want = 1.0 if (shape == "eye" and (k % n) == (k // n)) else 0.0
                        if w["const"] != want:
                            ok, msg = False, "cell %d stored %s, expected the constant %s (result must not depend on the input)" % (
                                k, w["const"] if w["const"] is not None else "a computed value", want)
                    else:
                        m = re.match(r"^store \S+ (\S+), ptr", w["text"])
                        v = m.group(1) if m else None
                        got = _shape_of(ff, v)
                        want = {"add": ("fadd", {(0, k * ss), (1, k * ss)}), "neg": ("fneg", {(0, k * ss)}), "copy": ("load", {(0, k * ss)})}[shape]
                        if got != want:
                            ok, msg = False, "cell %d is %s, expected %s" % (k, got, want)
                    if not ok:
                        break
                if not ok:
                    break
        rep.instance("T1", meta["ct"], op, ok=ok, sample={"witness": fname, "shape": shape, "cells": size})
        if not ok:
            rep.violation(Finding("T1", meta["ct"], op, "%s on %s does not have the additive-group shape: %s" % (op, meta["ct"], msg),
                                  None, None, detail={"witness": fname}))


def _shape_of(ff, v):
    """('load'|'fadd'|'fneg'|other, set of (param, byte offset) loaded)"""
    if v is None:
        return ("?", set())
    ins = ff.f.defs.get(v)
    if ins is None:
        return ("const" if ir.parse_const(v) is not None else "?", set())

    def ld(x):
        i = ff.f.defs.get(x)
        if i is None or i.op != "load":
            return None
        m = re.match(r"^load (?:volatile )?(.*?), ptr (\S+?)(?:,|$| )", i.text)
        p = ff.prov(m.group(2))
        if p.root[0] == "param" and p.off is not None:
            return (p.root[1], p.off)
        return None
    if ins.op == "load":
        l = ld(v)
        return ("load", {l} if l else set())
    if ins.op in ("fadd", "fneg", "fsub"):
        names = re.findall(ir.NAME, ins.text)
        ls = {ld(x) for x in names}
        if None in ls:
            return (ins.op + "?", set())
        return (ins.op, ls)
    return (ins.op, set())


# ----------------------------------------------------------------------------------------------
# K1 / K2 on the template pattern
# ----------------------------------------------------------------------------------------------

KIND_OF_ALIAS = {"GRefIn": "Rep", "GRefOut": "Rep", "TRefIn": "Dof", "TRefOut": "Dof", "MRefIn": "Dim", "MRefOut": "Dim",
                 "TMapRefIn": "Dof", "TMapRefOut": "Dof", "THessRefOut": "Hess"}
CONSTS = {"Rep": ("RepSizes", "RepSizesPsum"), "Dof": ("Dofs", "DofsPsum"), "Dim": ("Dims", "DimsPsum")}


# ---- B3: Bundle operation == tuple / block arrangement of the parts' own operation, as power series along rays ------------------

def check_b3(rep, bundles, tier):
    import irw
    import poly
    import rays
    import raychk
    from jet import Series
    rep.rule("B3", "Bundle exp / log / dr_exp / dr_expinv / d2r_exp / d2r_expinv / ad equal the tuple resp. block arrangement of the parts' own "
             "functions, as power series along rational rays incl. rays on which one part's tangent is exactly zero", minimum=10)
    W = irw.IRW("c06_b3", groups.PRELUDE, chunk=2)
    for g in bundles:
        if g.scalar != "double":
            continue
        hess = raychk.has_hessian(g)
        N, R = g.dof, g.rep
        pre = ("  using GT = %s;\n  Eigen::Map<const Eigen::Matrix<double, GT::Dof, 1>> a(p0);\n" % g.ctype)
        parts = []
        doff = roff = 0
        for i, m in enumerate(g.members):
            parts.append((i, m, doff, roff))
            doff += m.dof
            roff += m.rep
        sig = "const double* p0, double* o1, double* o2"

        def seg(m, doff):
            return "a.template segment<%d>(%d)" % (m.dof, doff)

        def om(n, r, c):
            return "  Eigen::Map<Eigen::Matrix<double, %d, %d>> %s(o%s);\n" % (r, c, n, n[-1])
        # exp: coefficients
        body = pre + om("m1", R, 1) + om("m2", R, 1) + "  m1 = GT::exp(a).coeffs();\n"
        for i, m, d_, r_ in parts:
            if m.key.startswith("V"):
                body += "  m2.template segment<%d>(%d) = %s;\n" % (m.rep, r_, seg(m, d_))
            else:
                body += "  m2.template segment<%d>(%d) = %s::exp(%s).coeffs();\n" % (m.rep, r_, m.ctype, seg(m, d_))
        W.add("b3_%s_exp" % g.key, sig, body, g=g, shape=(R, 1), what="Bundle exp == tuple of the parts' exp")
        # log(exp)
        body = pre + om("m1", N, 1) + om("m2", N, 1) + "  m1 = GT::exp(a).log();\n"
        for i, m, d_, r_ in parts:
            if m.key.startswith("V"):
                body += "  m2.template segment<%d>(%d) = %s;\n" % (m.dof, d_, seg(m, d_))
            else:
                body += "  m2.template segment<%d>(%d) = %s::exp(%s).log();\n" % (m.dof, d_, m.ctype, seg(m, d_))
        W.add("b3_%s_logexp" % g.key, sig, body, g=g, shape=(N, 1), what="Bundle log(exp) == tuple of the parts' log(exp)")
        for fn in ("dr_exp", "dr_expinv", "ad"):
            body = pre + om("m1", N, N) + om("m2", N, N) + "  m1 = GT::%s(a);\n  m2.setZero();\n" % fn
            for i, m, d_, r_ in parts:
                body += "  m2.template block<%d, %d>(%d, %d) = smooth::%s<%s>(%s);\n" % (m.dof, m.dof, d_, d_, fn, m.ctype, seg(m, d_))
            W.add("b3_%s_%s" % (g.key, fn), sig, body, g=g, shape=(N, N), what="Bundle %s == block diagonal of the parts' %s" % (fn, fn))
        if hess:
            for fn in ("d2r_exp", "d2r_expinv"):
                body = (pre + "  Eigen::Map<Eigen::Matrix<double, %d, %d>> m1(o1), m2(o2);\n" % (N, N * N) + "  m1 = GT::%s(a);\n  m2.setZero();\n" % fn)
                for i, m, d_, r_ in parts:
                    body += ("  {\n    const auto Hp = smooth::%s<%s>(%s);\n    for (int i = 0; i < %d; ++i)\n"
                             "      m2.template block<%d, %d>(%d, %d * (%d + i) + %d) = Hp.template block<%d, %d>(0, %d * i);\n  }\n"
                             % (fn, m.ctype, seg(m, d_), m.dof, m.dof, m.dof, d_, N, d_, d_, m.dof, m.dof, m.dof))
                W.add("b3_%s_%s" % (g.key, fn), sig, body, g=g, shape=(N, N * N), what="Bundle %s == block arrangement of the parts' %s" % (fn, fn))
    facts = W.build()
    rep.unit("%d Bundle-vs-parts witnesses in the series domain" % len(W.wits))
    for fname, (ff, meta, mod) in sorted(facts.items()):
        g = meta["g"]
        r, c = meta["shape"]
        base_dir = raychk.direction(g, 0, tscale=raychk.TSCALE)
        dirs = [("ray", base_dir)]
        z = raychk.zero_part(g, base_dir)
        if z is not None:
            dirs.append(("zero-part ray", z))
        for label, a0 in dirs:
            inputs = {"a%d" % i: Series({1: a0[i]}, rays.N_IN) for i in range(g.dof)}

            def cell_var(p, off, ty):
                return "a%d" % (off // 8) if p == 0 else None
            inst = "%s, %s" % (meta["what"], label)
            try:
                paths, tstar = rays.evaluate(ff, cell_var, inputs, max_paths=512)
                bad = None
                for path in paths:
                    M1 = rays.mat_from(path["stores"], 1, r, c)
                    M2 = rays.mat_from(path["stores"], 2, r, c)
                    mm, known = rays.first_mismatch(M1, M2, 8)
                    if mm is not None and bad is None:
                        bad = (mm, path)
            except poly.Narrowing as ex:
                rep.instance("B3", g.ctype, inst, ok=False, sample={})
                rep.violation(Finding("B3", g.ctype, inst, "a value is narrowed to single precision: %s" % ex, None, None))
                continue
            except (poly.Unsupported, ir.Unresolved) as ex:
                rep.broke("%s (%s): cannot abstract into the series domain: %s" % (fname, label, ex))
                continue
            # both sides take the same switch decisions (shared between equal abstract values), so they must agree on every path
            rep.instance("B3", g.ctype, inst, ok=bad is None, sample={"witness": fname, "paths": len(paths), "direction": [str(x) for x in a0]})
            if bad:
                mm, path = bad
                rep.violation(Finding("B3", g.ctype, inst, "%s fails along a = t*(%s): entry (%d,%d): coefficient of t^%d is %s for the Bundle, %s from the parts"
                                      % (meta["what"], ", ".join(str(x) for x in a0), mm[0], mm[1], mm[2], mm[3], mm[4]), None, None, detail={"witness": fname}))


def check(rep, tier, replay=None):
    rep.explanations.append(
        "C06: K.exec abstractly executes every member of the BundleImpl template (engine M) for an abstract composition with pairwise distinct part sizes and compares "
        "the whole output with the direct-product layout (holds for all compositions); B1/B2 read "
        "block non-interference and zero structure off the optimized IR of instantiated compositions; T1 reads the additive "
        "group shape of vectors/scalars off the IR (results that must not depend on inputs are literally constants).")
    rep.trusted.update(["clang++-16 front end and -O2 pipeline", "lib/ir.py dependence analysis (SSA def-use + control dependence)",
                        "documented direct-product layout as oracle"])
    gs = [g for g in groups.catalogue(tier) if g.members]
    if tier == "quick":
        gs = gs[:1] + [groups.bundle([groups.base("SE3"), groups.base("SO2"), groups.vec(3), groups.base("C1")])]
    check_bundles(rep, gs, tier)
    check_b3(rep, gs, tier)
    check_translation(rep, tier)
    objs = fe.ast_dump("BundleImpl")
    rep.unit("umbrella TU filtered BundleImpl")
    import bundlem
    bundlem.check(rep, tier, objs)
    import dfm
    rep.explanations.append(
        "T1.dyn (props/dfm.py, engine M): traits::lie<RnType> -- Eigen vectors as the translation group -- is executed from the AST for a fixed-size and for a dynamic-size vector; "
        "values and shapes of every member are compared with the additive group (Hessians n x n^2), and a constant matrix built with run-time sizes that contradict its "
        "compile-time sizes is reported.")
    dfm.check_rn(rep)
