"""C11 -- cumulative spline evaluation and its derivative outputs (part: value/derivative recursion of cspline_eval_vs/_gs)."""
import astlib as A
import fe
import splinejac
import tables


def check(rep, tier, replay=None):
    rep.explanations.append(
        "C11 (part): cspline_eval_vs / _gs are abstractly executed (engine M) in a free Lie algebra (bilinear bracket with [a,a]=0, transport "
        "operator kept symbolic, scalar coefficients as polynomials in the basis-derivative values) for K = 1..3 and every admissible output set and compared with the body-derivative recursion of g(u) = prod_j exp(Bcum_j(u) v_j) derived by the "
        "product rule; the basis-derivative rows it uses are the monomial_derivatives table decided under C20.  The Jacobian outputs "
        "(cspline_eval_dg_dvs / _dg_dgs) are decided in the ray-series domain (rules X2, X3): the optimized IR of witnesses is interpreted over "
        "truncated power series along v_j = t c_j and compared with the dual-number derivative of the defining recursion, for several "
        "(group, degree, basis, u) instances including u = 0 and u = 1.")
    rep.trusted.update(["clang++-16 front end", "hand-derived recursion (see props/splines.py check_x1)", "g++ 12 constant evaluator"])
    rep.assumptions.append("Jacobians are decided along rational rays through the origin of the difference space (a necessary condition for all "
                           "inputs), for the (group, K, basis, u) instances listed in the evidence; rounding is not modelled")
    d = fe.ast_dumps(["cspline_eval"])
    rep.unit("umbrella TU filtered cspline_eval; 1 batched static_assert TU")
    import x1m
    x1m.check(rep, d["cspline_eval"])
    # a function-local static initialised from an argument (e.g. a cached copy of the basis matrix) would make every later call evaluate the first call's curve
    import c18
    c18.check_staticarg(rep, d["cspline_eval"], rule="X1.s", only=["spline/detail/cumulative_spline_impl.hpp"])
    # the derivative rows fed into the recursion: monomial_derivatives<K,3>(u) rows p are d^p/du^p of (1, u, .., u^K)
    ws = [w for w in tables.utility_witnesses(6) if w.id.startswith("mder")]
    tables.run(rep, "X1m", ws, "monomial_derivative(s)<K>(u, p) == k!/(k-p)! u^(k-p) (rows used as Bcum^(p) weights)", 7)
    splinejac.run(rep, tier)
