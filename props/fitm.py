"""C14 rule U6 on engine M: fit_spline_1d is abstractly executed up to the linear solve, for abstract spline specifications, and the assembled linear system is
compared with the specification's own constraints.

The derivative tables are symbolic: U0tB(d, j) / U1tB(d, j) = d-th u-derivative of basis polynomial j at u = 0 / u = 1; segment durations dt_i, data differences dx_i and
boundary values are symbols; the number of segments N and the specification (degree K, continuity order InnCnt, boundary degrees LeftDeg / RghtDeg, optimisation order) are
concrete.  The sparse system handed to SparseLU (or embedded in the KKT matrix handed to SimplicialLDLT) must be, up to the order of the rows,

    boundary   sum_j U0tB(LeftDeg[i], j) x_0[j] = left_values[i]           sum_j U1tB(RghtDeg[i], j) x_{N-1}[j] = rght_values[i]
    value      sum_j U0tB(0, j) x_i[j] = 0          sum_j U1tB(0, j) x_i[j] = dx_i                        (every segment i)
    continuity sum_j U1tB(d, j) x_k[j] / dt_k^d - sum_j U0tB(d, j) x_{k+1}[j] / dt_{k+1}^d = 0            (k = 0..N-2, d = 1..InnCnt)

and in the derivative-minimising case the KKT matrix is [[Q, .], [A, 0]] with block-diagonal Q_i = dt_i^(1-2D) P + 1e-6 I and right-hand side (0, b)."""
import re
from fractions import Fraction

import astlib as A
import fe
import mach
import mmodels
from manim import TVec, Seg
from mach import AbstractViolation, Cell, Machine, Obj, PyFunc, Unab, Vec, is_num, show_val, simp, sym
from mmodels import Sparse, InnerIt
from report import Finding


class Table:
    """a symbolic constant table: name(d, j)"""

    def __init__(self, name):
        self.name = name

    def show(self):
        return self.name

    def __deepcopy__(self, memo):
        return self

    def index(self, M, idx):
        if len(idx) == 1:
            return self              # table[0].data()
        return sym("%s[%s,%s]" % (self.name, show_val(simp(idx[0])), show_val(simp(idx[1]))))

    def m_data(self, M, a, t):
        return self

    def m_transpose(self, M, a, t):
        return Table(self.name + "^T")

    def op_mul(self, M, a, b):
        if isinstance(a, Table) and isinstance(b, Table):
            nm = {("U0", "B"): "U0tB", ("U1", "B"): "U1tB", ("B^T", "Mmat"): "BtM", ("BtM", "B"): "P"}.get((a.name, b.name))
            if nm:
                return Table(nm)
        raise Unab("product of the tables %s and %s" % (show_val(a), show_val(b)))


class Solver:
    def __init__(self, kind, mat):
        self.kind, self.mat = kind, mat

    def show(self):
        return "%s(%s)" % (self.kind, self.mat.show())

    def m_solve(self, M, a, t):
        return Solution(self.kind, self.mat, a[0])

    def m_info(self, M, a, t):
        return "Success"


class Solution:
    def __init__(self, kind, mat, rhs):
        self.kind, self.mat, self.rhs = kind, mat, rhs
        self.head = None

    def show(self):
        return "solve(%s)" % self.kind

    def m_head(self, M, a, t):
        self.head = int(simp(a[0]))
        return self

    def m_eval(self, M, a, t):
        return self


class FitMachine(Machine):
    def __init__(self, decls, spec, N, **kw):
        super().__init__(decls=decls, type_factory=self.types, **kw)
        self.spec = spec
        self.global_env = mach.Env()
        f = self.funcs
        f["polynomial_basis"] = PyFunc(lambda M, v: Table("B"))
        f["monomial_derivatives"] = PyFunc(lambda M, v: Table("U0" if simp(v[0]) == 0 else ("U1" if simp(v[0]) == 1 else "U?")))
        f["monomial_integral"] = PyFunc(lambda M, v: Table("Mmat"))
        f["splinespec_max_deriv"] = PyFunc(lambda M, v: Fraction(spec["D"]))
        f["name:*"] = PyFunc(self.other_name, lazy=True)
        f["Zero"] = PyFunc(lambda M, v: TVec([Fraction(0)] * int(simp(v[0])), "Zero"))
        f["method:x"] = PyFunc(lambda M, o, a, t, env: M.rv(o), lazy=True)
        f["__assert_fail"] = PyFunc(self.assert_fail, lazy=True)
        f["assert"] = f["__assert_fail"]

    @staticmethod
    def assert_fail(M, args, env, name):
        what = " `%s`" % args[0][1] if args and args[0][0] == "str" else ""
        raise AbstractViolation("the library's own assertion%s fails on the abstract state" % what)

    def other_name(self, M, n, env, _):
        t = (n or "").replace(" ", "")
        m = re.match(r"^SS::(Degree|OptDeg|InnCnt)$", t)
        if m:
            return Fraction(self.spec[{"Degree": "K", "OptDeg": "OptDeg", "InnCnt": "InnCnt"}[m.group(1)]])
        if t in ("SS::LeftDeg", "SS::RghtDeg"):
            return Vec([Fraction(x) for x in self.spec[t.split("::")[1]]], t)
        return NotImplemented

    def types(self, M, tyn, args, env):
        if tyn.startswith(("Eigen::SparseMatrix<", "constEigen::SparseMatrix<")) and args is not None and len(args) == 2:
            r, c = (int(simp(self.eval(a, env))) for a in args)
            s = Sparse(r, c, name="A", compressed=False)
            return s
        if tyn.startswith(("Eigen::Map<constEigen::Matrix<double,", "constEigen::Map<constEigen::Matrix<double,")) and args is not None and len(args) == 1:
            return self.eval(args[0], env)
        if tyn.startswith(("StaticMatrix<", "constStaticMatrix<", "constexprStaticMatrix<")) and args is not None and len(args) == 1:
            return self.eval(args[0], env)
        if tyn.startswith(("Eigen::VectorXi", "Eigen::VectorXd", "Eigen::Matrix<int,-1,1>", "constEigen::VectorXd")) and args is not None and len(args) <= 1:
            if not args:
                return TVec([], "v")
            v = self.eval(args[0], env)
            if isinstance(v, Vec):
                return TVec(list(v.items), "v")
            return TVec([Fraction(0)] * int(simp(v)), "v")
        if "SparseLU<" in tyn or "SimplicialLDLT<" in tyn or "SimplicialLLT<" in tyn or "SparseQR<" in tyn:
            if args and len(args) == 1:
                return Solver(tyn.split("<")[0].replace("const", "").split("::")[-1], self.eval(args[0], env))
        if "InnerIterator" in tyn and args is not None and len(args) == 2:
            vals = [self.eval(a, env) for a in args]
            return InnerIt(vals[0], vals[1])
        return NotImplemented


# make Sparse tolerate the calls fit_spline_1d makes
def _prune(self, M, a, t):
    return None


Sparse.m_prune = _prune
Sparse.m_outerIndexPtr = lambda self, M, a, t: Vec([Fraction(sum(1 for (r, c) in self.e if c < j)) for j in range(self.cols + 1)], "outerIndexPtr")


def _seg_setconstant(self, M, a, t):
    for i in range(self.start, self.start + self.n):
        self.v.items[i] = a[0]


Seg.m_setConstant = _seg_setconstant
Seg.m_setZero = lambda self, M, a, t: _seg_setconstant(self, M, [Fraction(0)], t)


def expected_rows(spec, N):
    K = spec["K"]
    rows = []
    dt = [sym("dt%d" % i) for i in range(N)]
    dx = [sym("dx%d" % i) for i in range(N)]

    def U(which, d, j):
        return sym("%s[%d,%d]" % (which, d, j))
    for i, dg in enumerate(spec["LeftDeg"]):
        rows.append(({j: U("U0tB", dg, j) for j in range(K + 1)}, sym("lv%d" % i)))
    for i in range(N):
        rows.append(({i * (K + 1) + j: U("U0tB", 0, j) for j in range(K + 1)}, Fraction(0)))
        if spec["InnCnt"] >= 0:
            rows.append(({i * (K + 1) + j: U("U1tB", 0, j) for j in range(K + 1)}, dx[i]))
    for k in range(N - 1):
        for d in range(1, spec["InnCnt"] + 1):
            row = {}
            f1 = mach.to_rf(Fraction(1))
            f2 = mach.to_rf(Fraction(1))
            for _ in range(d):
                f1 = f1 * mach.to_rf(dt[k])
                f2 = f2 * mach.to_rf(dt[k + 1])
            for j in range(K + 1):
                row[k * (K + 1) + j] = simp(mach.to_rf(U("U1tB", d, j)) / f1)
                row[(k + 1) * (K + 1) + j] = simp(mach.to_rf(Fraction(0)) - mach.to_rf(U("U0tB", d, j)) / f2)
            rows.append((row, Fraction(0)))
    for i, dg in enumerate(spec["RghtDeg"]):
        rows.append(({(K + 1) * (N - 1) + j: U("U1tB", dg, j) for j in range(K + 1)}, sym("rv%d" % i)))
    return rows


def row_key(row, rhs):
    return (tuple(sorted((c, mach.show_val(simp(v))) for c, v in row.items() if not (isinstance(simp(v), Fraction) and simp(v) == 0))), mach.show_val(simp(rhs)))


SPECS = [
    ("FixedDerCubic<G, 2, 1>", {"K": 3, "OptDeg": -1, "InnCnt": 2, "LeftDeg": [2], "RghtDeg": [1], "D": 2}),
    ("FixedDerCubic<G, 1, 2>", {"K": 3, "OptDeg": -1, "InnCnt": 2, "LeftDeg": [1], "RghtDeg": [2], "D": 2}),
    ("PiecewiseLinear<G>", {"K": 1, "OptDeg": -1, "InnCnt": 0, "LeftDeg": [], "RghtDeg": [], "D": 0}),
    ("MinDerivative<G, 5, 3, 3>", {"K": 5, "OptDeg": 3, "InnCnt": 3, "LeftDeg": [1, 2], "RghtDeg": [1, 2], "D": 3}),
]


def check(rep, tier, dump):
    rep.rule("U6", "fit_spline_1d, abstractly executed up to the linear solve: the assembled system is exactly the specification's boundary, value and continuity constraints "
             "(asymmetric boundary orders, N = 1..3 segments); the derivative-minimising KKT system embeds the same constraints", minimum=8)
    decls = {}
    for x in A.index(dump):
        if x.pattern and x.kind in A.FUNCS and A.body(x.node) is not None and x.file and x.file.startswith(fe.INCLUDE):
            if not any(y.file == x.file and y.line == x.line for y in decls.get(x.qname.split("::")[-1], [])):
                decls.setdefault(x.qname.split("::")[-1], []).append(x)
    fns = decls.get("fit_spline_1d", [])
    if len(fns) != 1:
        rep.broke("U6: fit_spline_1d not found (%d)" % len(fns))
        return
    fn = fns[0]
    for sname, spec in SPECS:
        for N in ((1, 2, 3) if spec["OptDeg"] < 0 else (1, 2)):
            inst = "%s, N = %d" % (sname, N)
            ss = Obj("SplineSpec", {"LeftDeg": Vec([Fraction(x) for x in spec["LeftDeg"]], "LeftDeg"), "RghtDeg": Vec([Fraction(x) for x in spec["RghtDeg"]], "RghtDeg"),
                                    "left_values": Vec([sym("lv%d" % i) for i in range(len(spec["LeftDeg"]))], "left_values"),
                                    "rght_values": Vec([sym("rv%d" % i) for i in range(len(spec["RghtDeg"]))], "rght_values")})
            try:
                M = FitMachine(decls, spec, N)
                r = M.rv(M.run_function(fn, [Cell(Vec([sym("dt%d" % i) for i in range(N)], "dt_r")), Cell(Vec([sym("dx%d" % i) for i in range(N)], "dx_r")), mach.ItemRef([ss], 0)]))
            except Unab as ex:
                rep.broke("U6: fit_spline_1d (%s) is outside the abstract machine: %s" % (inst, ex))
                return
            except AbstractViolation as ex:
                rep.instance("U6", "fit_spline_1d", inst, ok=False, sample={})
                rep.violation(Finding("U6", "fit_spline_1d", inst, "fit_spline_1d with %s: %s" % (inst, ex), fn.file, fn.line))
                continue
            K = spec["K"]
            ncoef = (K + 1) * N
            bad = None
            if not isinstance(r, Solution) or not isinstance(r.mat, Sparse):
                bad = "does not return the solution of a sparse linear system (%s)" % show_val(r)
            else:
                want = expected_rows(spec, N)
                if spec["OptDeg"] < 0:
                    Amat, bvec = r.mat, (r.rhs.items if isinstance(r.rhs, Vec) else None)
                    off = 0
                else:
                    # KKT: rows ncoef.. hold [A 0], right-hand side tail holds b
                    Amat, bvec = r.mat, (r.rhs.items if isinstance(r.rhs, Vec) else None)
                    off = ncoef
                    if r.head != ncoef:
                        bad = "the coefficients are taken as the first %s entries of the KKT solution, not the first %d" % (r.head, ncoef)
                if bad is None and bvec is None:
                    bad = "the right-hand side is %s" % show_val(r.rhs)
                if bad is None:
                    nrows = Amat.rows - off
                    got = []
                    for rr in range(nrows):
                        row = {c: v for (r_, c), v in Amat.e.items() if r_ == off + rr and c < ncoef}
                        got.append(row_key(row, bvec[off + rr]))
                    wk = [row_key(rw, rhs) for rw, rhs in want]
                    if sorted(got) != sorted(wk):
                        miss = [k for k in wk if k not in got]
                        extra = [k for k in got if k not in wk]
                        bad = "the constraint rows differ from the specification: missing %s ; unexpected %s" % (str(miss[:1])[:300], str(extra[:1])[:300])
                if bad is None and spec["OptDeg"] >= 0:
                    D = spec["D"]
                    for i in range(N):
                        for ki in range(K + 1):
                            for kj in range(K + 1):
                                got = Amat.e.get((i * (K + 1) + ki, i * (K + 1) + kj), Fraction(0))
                                f_ = mach.to_rf(Fraction(1))
                                for _ in range(2 * D - 1):
                                    f_ = f_ * mach.to_rf(sym("dt%d" % i))
                                w = simp(mach.to_rf(sym("P[%d,%d]" % (ki, kj))) / f_ + mach.to_rf(Fraction(1, 10 ** 6) if ki == kj else Fraction(0)))
                                if not mach.num_equal(got, w):
                                    bad = "cost block entry (%d, %d) of segment %d is %s; expected dt^(1-2D) P + 1e-6 I = %s" % (ki, kj, i, show_val(got), show_val(w))
                                    break
                            if bad:
                                break
                        if bad:
                            break
                    if bad is None and not all(isinstance(simp(x), Fraction) and simp(x) == 0 for x in bvec[:ncoef]):
                        bad = "the first %d entries of the KKT right-hand side are not zero" % ncoef
            rep.instance("U6", "fit_spline_1d", inst, ok=bad is None, sample={})
            if bad:
                rep.violation(Finding("U6", "fit_spline_1d", inst, "fit_spline_1d with %s: %s" % (inst, bad), fn.file, fn.line))
