"""Catalogue of group instantiations used by the IR / witness checks, with the *documented* layouts
(Memory layout sections of include/smooth/detail/*.hpp and the direct-product definition of Bundle) as oracle.

Offsets/sizes are in scalars.  `parts` = sub-part accessors: (accessor expression suffix, offset, size, kind)
kind 'group:<type>' = Map<G> view, 'vec' = Eigen::Map<Vector>, 'quat' = Eigen::Map<Quaternion>.
"""
import re

PRELUDE = """#include <cmath>
#include <complex>
#include <Eigen/Core>
#include <smooth/so2.hpp>
#include <smooth/so3.hpp>
#include <smooth/se2.hpp>
#include <smooth/se3.hpp>
#include <smooth/c1.hpp>
#include <smooth/galilei.hpp>
#include <smooth/se_k_3.hpp>
#include <smooth/bundle.hpp>
#include <smooth/lie_groups.hpp>
"""

BASE = {
    # name: (template, rep, dof, dim, commutative, parts)
    "SO2": ("smooth::SO2<{S}>", 2, 1, 2, True, []),
    "SO3": ("smooth::SO3<{S}>", 4, 3, 3, False, [("quat()", 0, 4, "quat", None)]),
    "SE2": ("smooth::SE2<{S}>", 4, 3, 3, False, [("r2()", 0, 2, "vec", None), ("so2()", 2, 2, "group", "smooth::SO2<{S}>")]),
    "SE3": ("smooth::SE3<{S}>", 7, 6, 4, False, [("r3()", 0, 3, "vec", None), ("so3()", 3, 4, "group", "smooth::SO3<{S}>")]),
    "C1": ("smooth::C1<{S}>", 2, 2, 2, True, []),
    "Galilei": ("smooth::Galilei<{S}>", 11, 10, 5, False,
                [("r3_v()", 0, 3, "vec", None), ("r3_p()", 3, 3, "vec", None), ("r1_t()", 6, 1, "vec", None),
                 ("so3()", 7, 4, "group", "smooth::SO3<{S}>")]),
    "SE_2_3": ("smooth::SE_K_3<{S}, 2>", 10, 9, 5, False,
               [("template r3<0>()", 0, 3, "vec", None), ("template r3<1>()", 3, 3, "vec", None),
                ("so3()", 6, 4, "group", "smooth::SO3<{S}>")]),
    "SE_3_3": ("smooth::SE_K_3<{S}, 3>", 13, 12, 6, False,
               [("template r3<0>()", 0, 3, "vec", None), ("template r3<1>()", 3, 3, "vec", None), ("template r3<2>()", 6, 3, "vec", None),
                ("so3()", 9, 4, "group", "smooth::SO3<{S}>")]),
    "SE_1_3": ("smooth::SE_K_3<{S}, 1>", 7, 6, 4, False,
               [("template r3<0>()", 0, 3, "vec", None), ("so3()", 3, 4, "group", "smooth::SO3<{S}>")]),
}


class Part:
    def __init__(self, acc, off, size, kind, ctype):
        self.acc = acc        # accessor expression after the dot
        self.off = off        # offset in scalars (documented layout)
        self.size = size
        self.kind = kind      # 'vec' | 'group' | 'quat'
        self.ctype = ctype    # C++ type of the part for kind 'group'
        self.tag = re.sub(r"[^A-Za-z0-9]", "", acc)


class G:
    def __init__(self, key, ctype, scalar, rep, dof, dim, comm, parts, members=None):
        self.key = key          # identifier-safe name
        self.ctype = ctype      # C++ type
        self.scalar = scalar
        self.rep = rep
        self.dof = dof
        self.dim = dim
        self.comm = comm
        self.parts = parts
        self.members = members  # for bundles: list of member descriptors (G or vector dims)
        self.ssize = 8 if scalar == "double" else 4
        # further accessor spellings reaching the same sub-ranges (run-time indexed overloads with literal arguments);
        # not used for the disjoint/cover computation
        self.extra_parts = []
        if ctype.startswith("smooth::SE_K_3"):
            K = int(ctype.rstrip(">").split(",")[-1])
            self.extra_parts = [Part("r3(%d)" % k, 3 * k, 3, "vec", None) for k in range(K)]

    def map(self):
        return "smooth::Map<%s>" % self.ctype

    def cmap(self):
        return "smooth::Map<const %s>" % self.ctype


def base(name, scalar="double"):
    t, rep, dof, dim, comm, parts = BASE[name]
    sfx = "d" if scalar == "double" else "f"
    ps = [Part(a, o, n, k, c.format(S=scalar) if c else None) for a, o, n, k, c in parts]
    return G(name + sfx, t.format(S=scalar), scalar, rep, dof, dim, comm, ps)


def vec(n, scalar="double"):
    """Eigen fixed-size vector as Bundle member (translation group T(n))."""
    return G("V%d%s" % (n, "d" if scalar == "double" else "f"), "Eigen::Matrix<%s, %d, 1>" % (scalar, n), scalar, n, n, n + 1, True, [])


def bundle(members, scalar="double", key=None):
    rep = sum(m.rep for m in members)
    dof = sum(m.dof for m in members)
    dim = sum(m.dim for m in members)
    parts = []
    off = 0
    for i, m in enumerate(members):
        if m.key.startswith("V"):
            parts.append(Part("template part<%d>()" % i, off, m.rep, "vec", None))
        else:
            parts.append(Part("template part<%d>()" % i, off, m.rep, "group", m.ctype))
        off += m.rep
    ctype = "smooth::Bundle<%s>" % ", ".join(m.ctype for m in members)
    k = key or "B_" + "_".join(m.key for m in members)
    return G(k, ctype, scalar, rep, dof, dim, all(m.comm for m in members), parts, members=members)


def catalogue(tier):
    d = "double"
    gs = [base("SO2"), base("SO3"), base("SE2"), base("SE3"), base("C1"), base("Galilei"), base("SE_2_3"),
          bundle([base("SO3"), vec(2), base("SE2")])]
    if tier == "thorough":
        f = "float"
        gs += [base("SO2", f), base("SO3", f), base("SE2", f), base("SE3", f), base("C1", f), base("Galilei", f),
               base("SE_2_3", f), base("SE_1_3"), base("SE_3_3"),
               bundle([base("SE3"), base("SO2"), vec(3), base("C1")]),
               bundle([bundle([base("SO3"), vec(2)]), base("SE2")], key="B_nested"),
               bundle([base("SO3"), base("SO3")]),
               bundle([base("SO2"), vec(1), base("C1")], key="B_commutative"),
               bundle([base("SO3", f), vec(2, f), base("SE2", f)], scalar=f),
               bundle([base("Galilei"), base("SE_2_3")])]
    return gs


def by_key(gs):
    return {g.key: g for g in gs}
