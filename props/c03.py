"""C03 -- Ad, ad, hat, vee and the Lie bracket are the adjoint representation (exact algebraic identities)."""
import algebra
import raychk


def check(rep, tier, replay=None):
    rep.explanations.append(
        "C03: every identity is established as an exact polynomial (rational-function) identity between the two sides, "
        "abstracted path by path from the optimized IR of API-level witnesses into a polynomial domain over the input cells and "
        "compared modulo the unit-norm constraints of the group coefficients.  The result quantifies over all real inputs; "
        "floating-point rounding of the handful of operations involved is not modelled.  Ad(exp(a)) = expm(ad(a)) is transcendental: it is checked as a power-series identity along rational rays (rule T.C03).")
    rep.trusted.update(["clang++-16 front end and -O2 pipeline (value-preserving without -ffast-math)", "lib/poly.py exact rational arithmetic", "lib/ir.py"])
    rep.assumptions.append("exact real arithmetic; rounding error of compositions of a few additions/multiplications is not bounded here")
    algebra.check_identities(rep, tier, "C03")
    algebra.check_bracket_ast(rep)
    rep.explanations.append(
        "Rule T (engine R, lib/rays.py): the tangent input is abstracted as a = t*a0 along rational rays; the optimized IR of the witness is "
        "interpreted in the domain of truncated power series in t over exact rationals, and the closed-form path must reproduce the "
        "defining series coefficient by coefficient to order 8 (Ad(exp(a)) = sum ad(a)^k/k!); polynomial branches of small-angle switches may differ only "
        "by terms below the tolerance at the largest t that selects them.  A mismatch is a definite violation; agreement along the rays "
        "examined is a necessary condition of the identity for all a (not a proof).  Rounding is not modelled.")
    raychk.run(rep, tier, "C03", ["Adexp"], 1e-9)
