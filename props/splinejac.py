"""C11 rules X2 / X3 -- the Jacobian outputs of the cumulative spline, decided in the ray-series domain (engine R).

The differences are abstracted as v_j = t * c_j (rational directions, rotation parts of rational norm), the basis matrix and u are
exact rationals; the optimized IR of a witness calling cspline_eval_dg_dvs / cspline_eval_dg_dgs is interpreted over truncated
power series in t.  The expected directional derivatives are computed independently from the definition

    g(u) = prod_{j=1..K} exp(B_j v_j),   w_j = A_j w_{j-1} + B_j' v_j,   a_j = A_j a_{j-1} + B_j' [w_j, v_j] + B_j'' v_j,
    A_j = Ad(exp(-B_j v_j)) = expm(-B_j ad v_j)

(the recursion is the one rule X1 establishes for cspline_eval_vs) by dual-number differentiation of these formulas in the
direction (delta_1..delta_K):  d g = sum_j Ad(P_j^-1) B_j dr_exp(B_j v_j) delta_j  with P_j = prod_{i>j} exp(B_i v_i), and
d w_K, d a_K from the product rule, with expm and dr_exp given by their defining power series in ad(v_j).  For the control-point
Jacobians the direction is pushed through  delta_j = dr_expinv(v_j) eps_j - dl_expinv(v_j) eps_{j-1}  (v_j = g_j (-) g_{j-1}) and g
gets the extra term Ad(P^-1) eps_0.  ad(x) is taken from the library's own generators ad(e_k) (tied to the bracket by C03).
"""
from fractions import Fraction
from math import factorial

import fe
import groups
import ir
import irw
import poly
import rays
import raychk
import tables
from jet import Series
from report import Finding

PRELUDE = groups.PRELUDE + "#include <array>\n#include <span>\n#include <smooth/spline/cumulative_spline.hpp>\n"

ORDER = 7


def S0(q):
    return Series.const(Fraction(q), rays.N_IN)


def zero_vec(n):
    return [[Series({}, rays.N_IN)] for _ in range(n)]


def vadd(a, b, sb=1):
    return rays.mat_add(a, b, sb)


def trunc(M, order=ORDER + 1):
    return [[x.trunc(order) for x in row] for row in M]


class Model:
    """exact model of the cumulative spline and its directional derivative"""

    def __init__(self, gens, n):
        self.gens = gens      # list of n x n matrices of Series: ad(e_k)
        self.n = n

    def ad(self, vec):
        acc = [[Series({}, rays.N_IN) for _ in range(self.n)] for _ in range(self.n)]
        for k in range(self.n):
            if vec[k][0].c:
                acc = rays.mat_add(acc, rays.mat_scale(self.gens[k], vec[k][0]))
        return acc

    def expm_dual(self, X, Y, c):
        cX, cY = rays.mat_scale(X, c), rays.mat_scale(Y, c)
        f = lambda k: Fraction(1, factorial(k))
        return trunc(rays.power_sum(cX, f, ORDER)), trunc(raychk.d_power_sum(cX, cY, f, ORDER))

    def dr_exp(self, X):
        return trunc(rays.power_sum(X, lambda k: Fraction((-1) ** k, factorial(k + 1)), ORDER))

    def dr_expinv(self, X):
        return trunc(raychk.mat_inv_unipotent(self.dr_exp(X), ORDER))

    def run(self, vs, dvs, B, B1, B2):
        """vs, dvs: lists (j = 1..K) of column vectors; returns (dg, dw, da) column vectors: the directional derivatives"""
        K = len(vs)
        n = self.n
        w, dw = zero_vec(n), zero_vec(n)
        a, da = zero_vec(n), zero_vec(n)
        dg = zero_vec(n)
        for j in range(K):
            X, Y = self.ad(vs[j]), self.ad(dvs[j])
            A, dA = self.expm_dual(X, Y, -B[j])
            # value: existing sensitivities are transported by A_j, the new factor contributes B_j dr_exp(B_j v_j) delta_j
            dg = vadd(rays.mat_mul(A, dg), rays.mat_scale(rays.mat_mul(self.dr_exp(rays.mat_scale(X, B[j])), dvs[j]), B[j]))
            # velocity
            w_new = vadd(rays.mat_mul(A, w), rays.mat_scale(vs[j], B1[j]))
            dw_new = vadd(vadd(rays.mat_mul(dA, w), rays.mat_mul(A, dw)), rays.mat_scale(dvs[j], B1[j]))
            # acceleration: [w_j, v_j] = ad(w_j) v_j = -ad(v_j) w_j
            br = rays.mat_scale(rays.mat_mul(X, w_new), -1)
            dbr = rays.mat_scale(vadd(rays.mat_mul(Y, w_new), rays.mat_mul(X, dw_new)), -1)
            a_new = vadd(vadd(rays.mat_mul(A, a), rays.mat_scale(br, B1[j])), rays.mat_scale(vs[j], B2[j]))
            da_new = vadd(vadd(vadd(rays.mat_mul(dA, a), rays.mat_mul(A, da)), rays.mat_scale(dbr, B1[j])), rays.mat_scale(dvs[j], B2[j]))
            w, dw, a, da = trunc(w_new), trunc(dw_new), trunc(a_new), trunc(da_new)
            dg = trunc(dg)
        return dg, dw, da

    def ad_pinv(self, vs, B):
        """Ad(P^-1) for P = prod_j exp(B_j v_j): A_K ... A_1"""
        M = rays.mat_id(self.n)
        for j in range(len(vs)):
            A = trunc(rays.power_sum(rays.mat_scale(self.ad(vs[j]), -B[j]), lambda k: Fraction(1, factorial(k)), ORDER))
            M = trunc(rays.mat_mul(A, M))
        return M


def basis_values(tab, u, K):
    """B_j, B_j', B_j'' for j = 1..K from the coefficient table (rows = powers of u)"""
    B, B1, B2 = [], [], []
    for j in range(1, K + 1):
        col = [tab[i][j] for i in range(K + 1)]
        B.append(sum(col[i] * u ** i for i in range(K + 1)))
        B1.append(sum(col[i] * i * u ** (i - 1) for i in range(1, K + 1)))
        B2.append(sum(col[i] * i * (i - 1) * u ** (i - 2) for i in range(2, K + 1)))
    return B, B1, B2


CASES_QUICK = [
    # (group key, K, basis, u)
    ("SE2d", 2, "Bernstein", Fraction(1, 3)),
    ("SE2d", 3, "Bspline", Fraction(2, 5)),
    ("SE2d", 2, "Bernstein", Fraction(0)),
    ("SO3d", 3, "Bspline", Fraction(1)),
]
CASES_THOROUGH = [
    ("SE3d", 2, "Bspline", Fraction(1, 2)),
    ("SO3d", 4, "Bernstein", Fraction(3, 7)),
    ("SE2d", 3, "Bernstein", Fraction(1)),
]


def witnesses(cases):
    W = irw.IRW("splinejac", PRELUDE, chunk=1)
    gs = groups.by_key(groups.catalogue("thorough"))
    for ci, (gk, K, basis, u) in enumerate(cases):
        g = gs[gk]
        pre = ("  using GT = %s;\n  constexpr int K = %d;\n  using Tn = Eigen::Matrix<double, GT::Dof, 1>;\n" % (g.ctype, K)
               + "  Eigen::Map<const Eigen::Matrix<double, K + 1, K + 1>> Bcum(p1);\n"
               + "  Eigen::Map<Eigen::Matrix<double, GT::Dof, GT::Dof * GT::Dof>> gen(o4);\n"
               + "  for (int k = 0; k < GT::Dof; ++k) gen.template middleCols<GT::Dof>(GT::Dof * k) = GT::ad(Tn::Unit(k));\n")
        sig = "const double* p0, const double* p1, const double* p2, double* o1, double* o2, double* o3, double* o4"
        body_dvs = (pre + "  std::array<Tn, K> vs;\n  for (int j = 0; j < K; ++j) vs[j] = Eigen::Map<const Tn>(p0 + GT::Dof * j);\n"
                    + "  std::span<const Tn, K> vsp(vs);\n  smooth::SplineJacobian<GT, K - 1> dvel, dacc;\n"
                    + "  const auto dg = smooth::cspline_eval_dg_dvs<K, GT>(vsp, Bcum, *p2, dvel, dacc);\n"
                    + "  using JM = Eigen::Matrix<double, GT::Dof, GT::Dof * K>;\n"
                    + "  Eigen::Map<JM> m1(o1), m2(o2), m3(o3);\n  m1 = dg;\n  m2 = dvel;\n  m3 = dacc;\n")
        W.add("sj%d_dvs" % ci, sig, body_dvs, case=(gk, K, basis, u), g=g, kind="dvs")
        if ci < 2:
            # the velocity Jacobian alone (no acceleration output requested): a legal call whose result must be the same
            body_v = (pre + "  std::array<Tn, K> vs;\n  for (int j = 0; j < K; ++j) vs[j] = Eigen::Map<const Tn>(p0 + GT::Dof * j);\n"
                      + "  std::span<const Tn, K> vsp(vs);\n  smooth::SplineJacobian<GT, K - 1> dvel;\n"
                      + "  const auto dg = smooth::cspline_eval_dg_dvs<K, GT>(vsp, Bcum, *p2, dvel);\n"
                      + "  using JM = Eigen::Matrix<double, GT::Dof, GT::Dof * K>;\n"
                      + "  Eigen::Map<JM> m1(o1), m2(o2), m3(o3);\n  m1 = dg;\n  m2 = dvel;\n  m3.setZero();\n")
            W.add("sj%d_dvsv" % ci, sig, body_v, case=(gk, K, basis, u), g=g, kind="dvsv")
        body_dgs = (pre + "  std::array<GT, K + 1> gs;\n  gs[0] = GT::exp(Eigen::Map<const Tn>(p0));\n"
                    + "  for (int j = 1; j <= K; ++j) gs[j] = gs[j - 1] * GT::exp(Eigen::Map<const Tn>(p0 + GT::Dof * j));\n"
                    + "  std::span<const GT, K + 1> gsp(gs);\n  smooth::SplineJacobian<GT, K> dvel, dacc;\n"
                    + "  const auto dg = smooth::cspline_eval_dg_dgs<K>(gsp, Bcum, *p2, dvel, dacc);\n"
                    + "  using JM = Eigen::Matrix<double, GT::Dof, GT::Dof * (K + 1)>;\n"
                    + "  Eigen::Map<JM> m1(o1), m2(o2), m3(o3);\n  m1 = dg;\n  m2 = dvel;\n  m3 = dacc;\n")
        W.add("sj%d_dgs" % ci, sig, body_dgs, case=(gk, K, basis, u), g=g, kind="dgs")
    return W


def contract(J, direction, n, blocks):
    """J (n x n*blocks) times the stacked direction (list of `blocks` column vectors)"""
    out = zero_vec(n)
    for b in range(blocks):
        blk = [[J[r][n * b + c] for c in range(n)] for r in range(n)]
        out = vadd(out, rays.mat_mul(blk, direction[b]))
    return out


def run(rep, tier, tol=1e-7):
    cases = CASES_QUICK + (CASES_THOROUGH if tier == "thorough" else [])
    rep.rule("X2", "cspline_eval_dg_dvs: value / velocity / acceleration Jacobians w.r.t. the differences equal the directional derivative of the "
             "defining recursion along rational rays (series order %d)" % ORDER, minimum=3 * len(CASES_QUICK))
    rep.rule("X3", "cspline_eval_dg_dgs: Jacobians w.r.t. the control points equal the same derivative pushed through v_j = g_j (-) g_{j-1}", minimum=3 * len(CASES_QUICK))
    W = witnesses(cases)
    facts = W.build()
    rep.unit("%d spline-Jacobian witnesses" % len(W.wits))
    for fname, (ff, meta, mod) in sorted(facts.items()):
        gk, K, basis, u = meta["case"]
        g, kind = meta["g"], meta["kind"]
        n = g.dof
        rule = "X2" if kind in ("dvs", "dvsv") else "X3"
        nin = K if kind in ("dvs", "dvsv") else K + 1
        tab = tables.cumulative(tables.BASES[basis](K))
        # directions: control tangents c_j (ray), perturbation directions d_j (constants)
        cs, ds = [], []
        for j in range(nin):
            cs.append(raychk.direction(g, j))
            ds.append(raychk.direction(g, j + 2)[::-1])
        inputs = {}
        for j in range(nin):
            for k in range(n):
                inputs["a%d" % (j * n + k)] = Series({1: cs[j][k]}, rays.N_IN)
        for i in range(K + 1):
            for j in range(K + 1):
                inputs["B%d" % (j * (K + 1) + i)] = S0(tab[i][j])
        inputs["u0"] = S0(u)

        def cell_var(p, off, ty):
            return {0: "a", 1: "B", 2: "u"}[p] + str(off // 8) if p in (0, 1, 2) else None
        label = "%s K=%d %s u=%s" % (g.ctype.replace("smooth::", ""), K, basis, u)
        try:
            paths, tstar = rays.evaluate(ff, cell_var, inputs, max_paths=256)
        except (poly.Unsupported, ir.Unresolved) as ex:
            rep.broke("%s (%s): cannot abstract into the series domain: %s" % (fname, label, ex))
            continue
        B, B1, B2 = basis_values(tab, u, K)
        best = {}
        try:
            blocks = nin
            dirs = [[[S0(ds[j][k])] for k in range(n)] for j in range(nin)]
            # expected directional derivatives: computed once from the definition (the generators ad(e_k) are constants, taken from any path)
            st0 = paths[0]["stores"]
            gens_flat = rays.mat_from(st0, 6, n, n * n, "generator")
            gens = [[[gens_flat[r][n * k + c] for c in range(n)] for r in range(n)] for k in range(n)]
            M = Model(gens, n)
            if kind in ("dvs", "dvsv"):
                vs = [[[Series({1: cs[j][k]}, rays.N_IN)] for k in range(n)] for j in range(K)]
                eg, ew, ea = M.run(vs, dirs, B, B1, B2)
            else:
                vs = [[[Series({1: cs[j][k]}, rays.N_IN)] for k in range(n)] for j in range(1, K + 1)]
                dvs = []
                for j in range(1, K + 1):
                    X = M.ad(vs[j - 1])
                    r_inv = M.dr_expinv(X)
                    l_inv = M.dr_expinv(rays.mat_scale(X, -1))
                    dvs.append(trunc(vadd(rays.mat_mul(r_inv, dirs[j]), rays.mat_mul(l_inv, dirs[j - 1]), -1)))
                eg, ew, ea = M.run(vs, dvs, B, B1, B2)
                eg = vadd(eg, rays.mat_mul(M.ad_pinv(vs, B), dirs[0]))
            for path in paths:
                st = path["stores"]
                Jg = rays.mat_from(st, 3, n, n * blocks)
                Jw = rays.mat_from(st, 4, n, n * blocks)
                Ja = rays.mat_from(st, 5, n, n * blocks)
                for name, J, exp_ in (("value", Jg, eg), ("velocity", Jw, ew), ("acceleration", Ja, ea)):
                    if kind == "dvsv" and name == "acceleration":
                        continue
                    got = contract(J, dirs, n, blocks)
                    mm, known = rays.first_mismatch(got, exp_, ORDER)
                    best.setdefault(name, []).append((mm, known, path))
        except poly.Unsupported as ex:
            rep.broke("%s (%s): %s" % (fname, label, ex))
            continue
        for name in ("value", "velocity", "acceleration"):
            if name not in best:
                continue
            results = best[name]
            full = [r for r in results if r[0] is None and r[1] >= 5]
            low = [r for r in results if r[0] is not None and (tstar == 0.0 or abs(float(r[0][3] - r[0][4])) * tstar ** r[0][2] > tol)]
            ok = bool(full) and not low
            rep.instance(rule, "cspline_eval_dg_%s" % kind[:3], "%s%s, %s" % (name, " (velocity output only)" if kind == "dvsv" else "", label), ok=ok,
                         sample={"witness": fname, "paths": len(results), "t_switch": tstar})
            if ok:
                continue
            mm, known, path = low[0] if low else max(results, key=lambda r: (r[0][2] if r[0] else -1))
            conds = ", ".join("%s=%s" % (c[0], c[1]) for c in path["conds"][:3]) or "straight-line"
            msg = ("component %d: coefficient of t^%d is %s, the derivative of the defining recursion has %s" % (mm[0], mm[2], mm[3], mm[4])) if mm else \
                "no path is known to order %d" % ORDER
            rep.violation(Finding(rule, "cspline_eval_dg_%s" % kind[:3], "%s%s, %s" % (name, " (velocity output only)" if kind == "dvsv" else "", label),
                                  "the %s Jacobian w.r.t. the %s, contracted with a rational direction, differs from the directional derivative of "
                                  "g = prod exp(B_j v_j) (and its body velocity / acceleration) along v_j = t c_j on path [%s]: %s"
                                  % (name, "differences" if kind in ("dvs", "dvsv") else "control points", conds, msg), None, None, detail={"witness": fname}))
